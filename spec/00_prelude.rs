// ---------------------------------------------------------------------------------------------
// Stubs for the three external crates (rand 0.8, rand_distr 0.4, names 0.10).  The `use rand::..`
// lines of /repo are re-pointed to this module (rewrite R2); call sites stay byte-identical.
// Every contract in this module is an ASSUMPTION: the documented behaviour of those crates.
// ---------------------------------------------------------------------------------------------
pub mod rand_stub {
    #[allow(unused_imports)] use vstd::prelude::*;
    use core::ops::{Range, RangeInclusive};

    pub trait SampleRange<T>: Sized {
        spec fn nonempty(self) -> bool;
        spec fn has(self, x: T) -> bool;
    }
    /// element types `gen_range` accepts (rand: SampleUniform), with their order as spec functions
    pub trait SampleUniform: Sized {
        spec fn lt(a: Self, b: Self) -> bool;
        spec fn le(a: Self, b: Self) -> bool;
    }
    impl SampleUniform for i32 {
        open spec fn lt(a: i32, b: i32) -> bool { a < b }
        open spec fn le(a: i32, b: i32) -> bool { a <= b }
    }
    impl SampleUniform for u32 {
        open spec fn lt(a: u32, b: u32) -> bool { a < b }
        open spec fn le(a: u32, b: u32) -> bool { a <= b }
    }
    impl SampleUniform for usize {
        open spec fn lt(a: usize, b: usize) -> bool { a < b }
        open spec fn le(a: usize, b: usize) -> bool { a <= b }
    }
    /// f32 order: the IEEE comparison the exec operators `<`/`<=` compute (see spec::f32_lt)
    impl SampleUniform for f32 {
        open spec fn lt(a: f32, b: f32) -> bool { crate::spec::f32_lt(a, b) }
        open spec fn le(a: f32, b: f32) -> bool { crate::spec::f32_le(a, b) }
    }
    impl<T: SampleUniform> SampleRange<T> for Range<T> {
        open spec fn nonempty(self) -> bool { T::lt(self.start, self.end) }
        open spec fn has(self, x: T) -> bool { T::le(self.start, x) && T::lt(x, self.end) }
    }
    // inclusive ranges: fields are private in std; the only call site is the constant `0..=5`,
    // which is non-empty; nothing is assumed about the value drawn from it.
    impl<T: SampleUniform> SampleRange<T> for RangeInclusive<T> {
        open spec fn nonempty(self) -> bool { true }
        open spec fn has(self, x: T) -> bool { true }
    }

    /// what `Standard.sample` / `rng.gen::<T>()` / `rand::random::<T>()` may return
    pub trait RandomOut: Sized {
        spec fn ok(self) -> bool;
    }
    impl RandomOut for bool { open spec fn ok(self) -> bool { true } }
    impl RandomOut for i32 { open spec fn ok(self) -> bool { true } }
    pub uninterp spec fn f32_unit_interval(x: f32) -> bool;
    impl RandomOut for f32 { open spec fn ok(self) -> bool { f32_unit_interval(self) } }

    pub trait Rng {
        /// rand 0.8: "Panics if the range is empty."
        fn gen_range<T, R: SampleRange<T>>(&mut self, range: R) -> (r: T)
            requires range.nonempty(),
            ensures range.has(r);
        fn gen<T: RandomOut>(&mut self) -> (r: T)
            ensures r.ok();
    }
    pub struct ThreadRng {}
    impl Rng for ThreadRng {
        #[verifier::external_body]
        fn gen_range<T, R: SampleRange<T>>(&mut self, range: R) -> (r: T) { unimplemented!() }
        #[verifier::external_body]
        fn gen<T: RandomOut>(&mut self) -> (r: T) { unimplemented!() }
    }
    #[verifier::external_body]
    pub fn thread_rng() -> ThreadRng { unimplemented!() }
    /// rand::random::<T>() == Standard.sample(&mut thread_rng())
    #[verifier::external_body]
    pub fn random<T: RandomOut>() -> (r: T)
        ensures r.ok()
    { unimplemented!() }

    pub trait Distribution<T> {
        fn sample<R: Rng + ?Sized>(&self, rng: &mut R) -> T;
    }
    pub struct Standard;

    pub struct Uniform<T> { pub lo: T, pub hi: T }
    impl Uniform<usize> {
        /// rand 0.8 `Uniform::from(Range)` = `Uniform::new(low, high)`: "Panics if low >= high"
        #[verifier::external_body]
        pub fn from(r: Range<usize>) -> (u: Self)
            requires r.start < r.end,
            ensures u.lo == r.start, u.hi == r.end,
        { unimplemented!() }
        #[verifier::external_body]
        pub fn sample<R: Rng + ?Sized>(&self, rng: &mut R) -> (x: usize)
            ensures self.lo <= x < self.hi,
        { unimplemented!() }
    }

    pub struct Normal { pub mean: f32, pub std_dev: f32 }
    #[verifier::external_derive]
    #[derive(Debug)]
    pub struct NormalError {}
    /// rand_distr 0.4.3: Normal::new fails unless std_dev is finite (checked against the crate's code by Kani harness l2_normal_new)
    pub uninterp spec fn normal_std_ok(std_dev: f32) -> bool;
    impl Normal {
        #[verifier::external_body]
        pub fn new(mean: f32, std_dev: f32) -> (r: Result<Normal, NormalError>)
            ensures r.is_ok() <==> normal_std_ok(std_dev),
        { unimplemented!() }
        #[verifier::external_body]
        pub fn sample<R: Rng + ?Sized>(&self, rng: &mut R) -> (x: f32)
        { unimplemented!() }
    }

    /// names::Generator: an endless iterator of fresh names
    pub struct Generator {}
    impl Generator {
        #[verifier::external_body]
        pub fn default() -> Generator { unimplemented!() }
        #[verifier::external_body]
        pub fn next(&mut self) -> (r: Option<String>)
            ensures r.is_some(),
        { unimplemented!() }
    }
}

// ---------------------------------------------------------------------------------------------
// T-std: contracts ASSUMED for std functions vstd does not cover.  Each is the std documentation's
// contract including its panic conditions (as `requires`), so that calling one with arguments
// that would panic is a failed `safety` obligation at the call site.
// ---------------------------------------------------------------------------------------------
pub mod tstd {
    #[allow(unused_imports)] use vstd::prelude::*;
    use std::alloc::Allocator;
    use std::collections::HashMap;
    use std::hash::{BuildHasher, Hash};
    use core::borrow::Borrow;
    use crate::spec::*;

    pub assume_specification<T>[core::mem::replace::<T>](dest: &mut T, src: T) -> (r: T)
        ensures *final(dest) == src, r == *old(dest);
    /// the value left behind is `T::default()`, about which nothing is assumed
    pub assume_specification<T: Default>[core::mem::take::<T>](dest: &mut T) -> (r: T)
        ensures r == *old(dest);
    #[verifier::external_type_specification]
    #[verifier::external_body]
    pub struct ExSplitWhitespace<'a>(core::str::SplitWhitespace<'a>);
    #[verifier::external_type_specification]
    #[verifier::external_body]
    pub struct ExParseIntError(core::num::ParseIntError);
    #[verifier::external_type_specification]
    #[verifier::external_body]
    pub struct ExParseFloatError(core::num::ParseFloatError);
    /// the whitespace-separated words of a string, in order (uninterpreted), and the words an iterator has still to yield
    pub uninterp spec fn str_words<'a>(s: &'a str) -> Seq<&'a str>;
    pub uninterp spec fn sw_tokens<'a>(it: core::str::SplitWhitespace<'a>) -> Seq<&'a str>;
    /// tokens still to come (the measure for termination)
    pub open spec fn sw_remaining(it: core::str::SplitWhitespace<'_>) -> nat { sw_tokens(it).len() }
    pub assume_specification<'a>[str::trim](s: &'a str) -> (r: &'a str)
        ensures r@ == crate::spec::str_trim(s@);
    pub assume_specification<'a>[str::split_whitespace](s: &'a str) -> (r: core::str::SplitWhitespace<'a>)
        ensures sw_tokens(r) == str_words(s), sw_tokens(r).len() <= usize::MAX;      // a string in memory has fewer than 2^64 tokens
    pub assume_specification<'a>[<core::str::SplitWhitespace<'a> as Iterator>::next](it: &mut core::str::SplitWhitespace<'a>) -> (r: Option<&'a str>)
        ensures match r {
            Some(t) => sw_tokens(*old(it)).len() > 0 && t == sw_tokens(*old(it))[0] && sw_tokens(*final(it)) == sw_tokens(*old(it)).skip(1),
            None => sw_tokens(*old(it)).len() == 0 && sw_tokens(*final(it)).len() == 0,
        };
    /// std slice::sort: "sorts the slice ... stable"; the result is an uninterpreted function of the input with, for i32, the facts below
    pub uninterp spec fn slice_sorted<T>(s: Seq<T>) -> Seq<T>;
    pub assume_specification<T: Ord>[<[T]>::sort](s: &mut [T])
        ensures final(s)@ == slice_sorted(old(s)@);
    /// i32's Ord is the numeric order: the sorted slice is an ascending permutation of the input
    pub broadcast axiom fn axiom_slice_sorted_i32(s: Seq<i32>)
        ensures (#[trigger] slice_sorted(s)).len() == s.len(), slice_sorted(s).to_multiset() == s.to_multiset(),
            forall|i: int, j: int| 0 <= i < j < s.len() ==> slice_sorted(s)[i] <= slice_sorted(s)[j];
    pub assume_specification<T>[<[T]>::reverse](s: &mut [T])
        ensures final(s)@ == old(s)@.reverse();
    pub assume_specification<T>[<[T]>::swap](s: &mut [T], a: usize, b: usize)
        requires a < old(s)@.len(), b < old(s)@.len(),
        ensures final(s)@ == old(s)@.update(a as int, old(s)@[b as int]).update(b as int, old(s)@[a as int]);
    /// std: "This function will panic if mid is greater than the length of the slice."
    pub assume_specification<T>[<[T]>::rotate_left](s: &mut [T], mid: usize)
        requires mid <= old(s)@.len(),
        ensures final(s)@ == old(s)@.subrange(mid as int, old(s)@.len() as int) + old(s)@.subrange(0, mid as int);
    pub uninterp spec fn slice_contains<T>(s: Seq<T>, x: T) -> bool;
    pub assume_specification<T: PartialEq>[<[T]>::contains](s: &[T], x: &T) -> (r: bool)
        ensures r == slice_contains(s@, *x);
    /// std: `contains` is `iter().any(|e| *e == *x)`
    pub broadcast axiom fn axiom_slice_contains_eq<T: PartialEq>(s: Seq<T>, x: T)
        requires <T as vstd::std_specs::cmp::PartialEqSpec>::obeys_eq_spec(),
        ensures #[trigger] slice_contains(s, x) == (exists|i: int| 0 <= i < s.len() && vstd::std_specs::cmp::PartialEqSpec::eq_spec(&#[trigger] s[i], &x));
    pub broadcast axiom fn axiom_slice_contains_i32(s: Seq<i32>, x: i32)
        ensures #[trigger] slice_contains(s, x) == s.contains(x);
    pub broadcast axiom fn axiom_slice_contains_usize(s: Seq<usize>, x: usize)
        ensures #[trigger] slice_contains(s, x) == s.contains(x);

    pub broadcast group group_tstd {
        axiom_slice_contains_eq, axiom_slice_contains_i32, axiom_slice_contains_usize, axiom_vec_into_iter_seq, axiom_cmp_min_i32, axiom_cmp_max_i32, axiom_cmp_max_usize, axiom_slice_sorted_unstable_i32, axiom_binary_search_i32, axiom_slice_sorted_i32,
    }
    pub uninterp spec fn into_iter_seq<T, I>(i: I) -> Seq<T>;
    pub assume_specification<T, A: Allocator, I: IntoIterator<Item = T>>[<Vec<T, A> as Extend<T>>::extend::<I>](v: &mut Vec<T, A>, iter: I)
        ensures final(v)@ == old(v)@ + into_iter_seq::<T, I>(iter);
    pub broadcast axiom fn axiom_vec_into_iter_seq<T>(v: Vec<T>)
        ensures #[trigger] into_iter_seq::<T, Vec<T>>(v) == v@;

    /// std: abs overflows (panics in debug builds) for i32::MIN
    pub assume_specification[i32::abs](x: i32) -> (r: i32)
        requires x != i32::MIN,
        ensures r == (if x < 0 { -(x as int) } else { x as int });
    /// std: panics if rhs is zero, overflows for (MIN, -1)
    pub assume_specification[i32::rem_euclid](x: i32, m: i32) -> (r: i32)
        requires m != 0, !(x == i32::MIN && m == -1),
        ensures r == (x as int) % (m as int), m > 0 ==> 0 <= r < m, (0 <= x < m) ==> r == x;
    /// std: wrapping_div / wrapping_rem panic if rhs is zero; (MIN, -1) wraps to MIN / 0
    pub assume_specification[i32::wrapping_div](x: i32, y: i32) -> (r: i32)
        requires y != 0,
        ensures r == (if x == i32::MIN && y == -1 { i32::MIN } else { trunc_div(x as int, y as int) as i32 }),
            !(x == i32::MIN && y == -1) ==> in_i32(trunc_div(x as int, y as int));
    pub assume_specification[i32::wrapping_rem](x: i32, y: i32) -> (r: i32)
        requires y != 0,
        ensures r == (if x == i32::MIN && y == -1 { 0i32 } else { trunc_rem(x as int, y as int) as i32 }),
            in_i32(trunc_rem(x as int, y as int));
    pub assume_specification[i32::wrapping_abs](x: i32) -> (r: i32)
        ensures r == (if x == i32::MIN { i32::MIN } else if x < 0 { (-(x as int)) as i32 } else { x });
    pub assume_specification[i32::saturating_abs](x: i32) -> (r: i32)
        ensures r == (if x == i32::MIN { i32::MAX } else if x < 0 { (-(x as int)) as i32 } else { x });
    pub assume_specification[i32::signum](x: i32) -> (r: i32)
        ensures r == (if x > 0 { 1i32 } else if x < 0 { -1i32 } else { 0i32 });
    pub assume_specification[i32::saturating_add](x: i32, y: i32) -> (r: i32)
        ensures r == (if x + y > i32::MAX { i32::MAX } else if x + y < i32::MIN { i32::MIN } else { (x + y) as i32 });
    pub assume_specification[i32::saturating_sub](x: i32, y: i32) -> (r: i32)
        ensures r == (if x - y > i32::MAX { i32::MAX } else if x - y < i32::MIN { i32::MIN } else { (x - y) as i32 });
    pub assume_specification[i32::saturating_mul](x: i32, y: i32) -> (r: i32)
        ensures r == (if x * y > i32::MAX { i32::MAX } else if x * y < i32::MIN { i32::MIN } else { (x * y) as i32 });
    pub assume_specification[i32::unsigned_abs](x: i32) -> (r: u32)
        ensures r == (if x < 0 { -(x as int) } else { x as int });
    // further f32 library functions a change might start using: deterministic, otherwise uninterpreted
    pub assume_specification[f32::trunc](x: f32) -> (r: f32) ensures r == f_trunc(x);
    pub assume_specification[f32::floor](x: f32) -> (r: f32) ensures r == f_floor(x);
    pub assume_specification[f32::abs](x: f32) -> (r: f32) ensures r == f_abs(x);
    pub assume_specification[f32::signum](x: f32) -> (r: f32) ensures r == f_signum(x);
    pub assume_specification[f32::to_bits](x: f32) -> (r: u32) ensures r == f_to_bits(x);
    pub assume_specification[f32::is_infinite](x: f32) -> (r: bool) ensures r == f_is_infinite(x);
    pub assume_specification[f32::is_sign_negative](x: f32) -> (r: bool) ensures r == f_is_sign_negative(x);
    pub assume_specification[f32::is_finite](x: f32) -> (r: bool) ensures r == f_is_finite(x);
    pub assume_specification[f32::is_nan](x: f32) -> (r: bool) ensures r == f_is_nan(x);
    pub uninterp spec fn cmp_min_spec<T>(a: T, b: T) -> T;
    pub assume_specification<T: Ord>[core::cmp::min::<T>](a: T, b: T) -> (r: T)
        ensures r == cmp_min_spec(a, b);
    pub broadcast axiom fn axiom_cmp_min_i32(a: i32, b: i32)
        ensures #[trigger] cmp_min_spec(a, b) == (if a <= b { a } else { b });
    pub assume_specification[usize::checked_pow](x: usize, e: u32) -> (r: Option<usize>)
        ensures r == (if vstd::arithmetic::power::pow(x as int, e as nat) <= usize::MAX { Some(vstd::arithmetic::power::pow(x as int, e as nat) as usize) } else { None::<usize> });

    // f32 library functions: total, deterministic, otherwise uninterpreted
    pub assume_specification[f32::sin](x: f32) -> (r: f32) ensures r == f_sin(x);
    pub assume_specification[f32::cos](x: f32) -> (r: f32) ensures r == f_cos(x);
    pub assume_specification[f32::tan](x: f32) -> (r: f32) ensures r == f_tan(x);
    pub assume_specification[f32::exp](x: f32) -> (r: f32) ensures r == f_exp(x);
    pub assume_specification[f32::sqrt](x: f32) -> (r: f32) ensures r == f_sqrt(x);
    pub assume_specification[f32::ceil](x: f32) -> (r: f32) ensures r == f_ceil(x);
    pub assume_specification[f32::round](x: f32) -> (r: f32) ensures r == f_round(x);
    pub assume_specification[f32::powf](x: f32, y: f32) -> (r: f32) ensures r == f_powf(x, y);
    pub assume_specification[f32::max](x: f32, y: f32) -> (r: f32) ensures r == f_max(x, y);
    pub assume_specification[f32::clamp](x: f32, lo: f32, hi: f32) -> (r: f32) requires crate::spec::f32_le(lo, hi), ensures r == crate::spec::f_clamp(x, lo, hi);
    pub assume_specification[f32::min](x: f32, y: f32) -> (r: f32) ensures r == f_min(x, y);
    // more f32 library functions a change might start using: total, deterministic, otherwise uninterpreted
    pub assume_specification[f32::hypot](x: f32, y: f32) -> (r: f32) ensures r == crate::spec::fx_hypot(x, y);
    pub assume_specification[f32::powi](x: f32, n: i32) -> (r: f32) ensures r == crate::spec::fx_powi(x, n);
    pub assume_specification[f32::ln](x: f32) -> (r: f32) ensures r == crate::spec::fx_ln(x);
    pub assume_specification[f32::log10](x: f32) -> (r: f32) ensures r == crate::spec::fx_log10(x);
    pub assume_specification[f32::log2](x: f32) -> (r: f32) ensures r == crate::spec::fx_log2(x);
    pub assume_specification[f32::exp2](x: f32) -> (r: f32) ensures r == crate::spec::fx_exp2(x);
    pub assume_specification[f32::mul_add](x: f32, y: f32, z: f32) -> (r: f32) ensures r == crate::spec::fx_mul_add(x, y, z);
    pub assume_specification[f32::rem_euclid](x: f32, y: f32) -> (r: f32) ensures r == crate::spec::fx_rem_euclid(x, y);
    pub assume_specification[f32::fract](x: f32) -> (r: f32) ensures r == crate::spec::fx_fract(x);
    pub assume_specification[f32::recip](x: f32) -> (r: f32) ensures r == crate::spec::fx_recip(x);
    pub assume_specification[f32::copysign](x: f32, y: f32) -> (r: f32) ensures r == crate::spec::fx_copysign(x, y);
    pub assume_specification[f32::to_degrees](x: f32) -> (r: f32) ensures r == crate::spec::fx_to_degrees(x);
    pub assume_specification[f32::to_radians](x: f32) -> (r: f32) ensures r == crate::spec::fx_to_radians(x);
    pub assume_specification[f32::atan2](x: f32, y: f32) -> (r: f32) ensures r == crate::spec::fx_atan2(x, y);
    pub assume_specification[f32::atan](x: f32) -> (r: f32) ensures r == crate::spec::fx_atan(x);
    pub assume_specification[f32::asin](x: f32) -> (r: f32) ensures r == crate::spec::fx_asin(x);
    pub assume_specification[f32::acos](x: f32) -> (r: f32) ensures r == crate::spec::fx_acos(x);
    pub assume_specification[f32::tanh](x: f32) -> (r: f32) ensures r == crate::spec::fx_tanh(x);
    pub assume_specification[f32::sinh](x: f32) -> (r: f32) ensures r == crate::spec::fx_sinh(x);
    pub assume_specification[f32::cosh](x: f32) -> (r: f32) ensures r == crate::spec::fx_cosh(x);
    pub assume_specification[f32::exp_m1](x: f32) -> (r: f32) ensures r == crate::spec::fx_exp_m1(x);
    pub assume_specification[f32::ln_1p](x: f32) -> (r: f32) ensures r == crate::spec::fx_ln_1p(x);
    pub assume_specification[f32::cbrt](x: f32) -> (r: f32) ensures r == crate::spec::fx_cbrt(x);
    pub assume_specification[f32::log](x: f32, y: f32) -> (r: f32) ensures r == crate::spec::fx_log(x, y);
    pub assume_specification[f32::from_bits](b: u32) -> (r: f32) ensures r == crate::spec::fx_from_bits(b);
    pub assume_specification[f32::is_normal](x: f32) -> (r: bool) ensures r == crate::spec::fx_is_normal(x);
    /// the sign bit is clear (true for +0.0 and for NaNs with a clear sign bit)
    pub assume_specification[f32::is_sign_positive](x: f32) -> (r: bool) ensures r == !f_is_sign_negative(x);
    pub assume_specification[f32::total_cmp](x: &f32, y: &f32) -> (r: core::cmp::Ordering) ensures r == crate::spec::fx_total_cmp(*x, *y);
    // Duration accessors: deterministic functions of the duration, nothing else assumed
    pub assume_specification[std::time::Duration::as_secs](d: &std::time::Duration) -> (r: u64) ensures r == crate::spec::dur_as_secs(*d);
    pub assume_specification[std::time::Duration::as_millis](d: &std::time::Duration) -> (r: u128) ensures r == crate::spec::dur_as_millis(*d);
    pub assume_specification[std::time::Duration::as_micros](d: &std::time::Duration) -> (r: u128) ensures r == crate::spec::dur_as_micros(*d);
    pub assume_specification[std::time::Duration::as_nanos](d: &std::time::Duration) -> (r: u128) ensures r == crate::spec::dur_as_nanos(*d);
    pub assume_specification[std::time::Duration::as_secs_f32](d: &std::time::Duration) -> (r: f32) ensures r == crate::spec::dur_as_secs_f32(*d);
    pub assume_specification[std::time::Duration::as_secs_f64](d: &std::time::Duration) -> (r: f64) ensures r == crate::spec::dur_as_secs_f64(*d);
    pub assume_specification[std::time::Duration::subsec_millis](d: &std::time::Duration) -> (r: u32) ensures r == crate::spec::dur_subsec_millis(*d);
    pub assume_specification[std::time::Duration::subsec_nanos](d: &std::time::Duration) -> (r: u32) ensures r == crate::spec::dur_subsec_nanos(*d);
    pub assume_specification[std::time::Duration::from_secs](s: u64) -> std::time::Duration;
    pub assume_specification[std::time::Duration::from_micros](s: u64) -> std::time::Duration;
    pub assume_specification[std::time::Duration::from_nanos](s: u64) -> std::time::Duration;
    // further integer methods a change might start using (std documentation; the ones that can panic carry the panic condition as a precondition)
    pub assume_specification[i32::checked_neg](x: i32) -> (r: Option<i32>)
        ensures r == (if x == i32::MIN { None::<i32> } else { Some((-(x as int)) as i32) });
    pub assume_specification[i32::checked_abs](x: i32) -> (r: Option<i32>)
        ensures r == (if x == i32::MIN { None::<i32> } else if x < 0 { Some((-(x as int)) as i32) } else { Some(x) });
    pub assume_specification[i32::wrapping_neg](x: i32) -> (r: i32)
        ensures r == (if x == i32::MIN { i32::MIN } else { (-(x as int)) as i32 });
    pub assume_specification[i32::saturating_neg](x: i32) -> (r: i32)
        ensures r == (if x == i32::MIN { i32::MAX } else { (-(x as int)) as i32 });
    pub assume_specification[i32::is_negative](x: i32) -> (r: bool) ensures r == (x < 0);
    pub assume_specification[i32::is_positive](x: i32) -> (r: bool) ensures r == (x > 0);
    pub assume_specification[i32::abs_diff](x: i32, y: i32) -> (r: u32)
        ensures r == (if x >= y { x - y } else { y - x });
    pub assume_specification[usize::abs_diff](x: usize, y: usize) -> (r: usize)
        ensures r == (if x >= y { x - y } else { y - x });
    /// std: panics on overflow in debug builds (the crate's tests run with overflow checks); the precondition is the absence of overflow
    pub assume_specification[i32::pow](x: i32, e: u32) -> (r: i32)
        requires in_i32(vstd::arithmetic::power::pow(x as int, e as nat)),
        ensures r == vstd::arithmetic::power::pow(x as int, e as nat);
    pub assume_specification[usize::pow](x: usize, e: u32) -> (r: usize)
        requires vstd::arithmetic::power::pow(x as int, e as nat) <= usize::MAX,
        ensures r == vstd::arithmetic::power::pow(x as int, e as nat);
    pub assume_specification[usize::saturating_pow](x: usize, e: u32) -> (r: usize)
        ensures r == (if vstd::arithmetic::power::pow(x as int, e as nat) <= usize::MAX { vstd::arithmetic::power::pow(x as int, e as nat) as usize } else { usize::MAX });
    pub assume_specification[i32::saturating_pow](x: i32, e: u32) -> (r: i32)
        ensures r == (if vstd::arithmetic::power::pow(x as int, e as nat) > i32::MAX { i32::MAX } else if vstd::arithmetic::power::pow(x as int, e as nat) < i32::MIN { i32::MIN } else { vstd::arithmetic::power::pow(x as int, e as nat) as i32 });
    pub assume_specification[i32::checked_pow](x: i32, e: u32) -> (r: Option<i32>)
        ensures r == (if in_i32(vstd::arithmetic::power::pow(x as int, e as nat)) { Some(vstd::arithmetic::power::pow(x as int, e as nat) as i32) } else { None::<i32> });
    /// std: panics if rhs is zero, overflows for (MIN, -1); the quotient that goes with rem_euclid (0 <= remainder)
    pub assume_specification[i32::div_euclid](x: i32, m: i32) -> (r: i32)
        requires m != 0, !(x == i32::MIN && m == -1),
        ensures r == (x as int) / (m as int);
    pub assume_specification[usize::rem_euclid](x: usize, m: usize) -> (r: usize)
        requires m != 0,
        ensures r == (x as int) % (m as int);
    pub assume_specification[usize::is_power_of_two](x: usize) -> (r: bool) ensures r == crate::spec::usize_is_pow2(x);
    pub assume_specification<T: Ord>[core::cmp::max::<T>](a: T, b: T) -> (r: T)
        ensures r == crate::spec::cmp_max_spec(a, b);
    pub broadcast axiom fn axiom_cmp_max_i32(a: i32, b: i32)
        ensures #[trigger] crate::spec::cmp_max_spec(a, b) == (if a >= b { a } else { b });
    pub broadcast axiom fn axiom_cmp_max_usize(a: usize, b: usize)
        ensures #[trigger] crate::spec::cmp_max_spec(a, b) == (if a >= b { a } else { b });
    // Option combinators without closures
    pub assume_specification<T>[Option::<T>::or](a: Option<T>, b: Option<T>) -> (r: Option<T>)
        ensures r == (if a is Some { a } else { b });
    pub assume_specification<T>[Option::<T>::xor](a: Option<T>, b: Option<T>) -> (r: Option<T>)
        ensures r == (if a is Some && b is None { a } else if a is None && b is Some { b } else { None::<T> });
    pub assume_specification<T, U>[Option::<T>::zip::<U>](a: Option<T>, b: Option<U>) -> (r: Option<(T, U)>)
        ensures r == (if a is Some && b is Some { Some((a->0, b->0)) } else { None::<(T, U)> });
    pub assume_specification<T>[Option::<T>::replace](a: &mut Option<T>, v: T) -> (r: Option<T>)
        ensures r == *old(a), *final(a) == Some(v);
    pub assume_specification<T, A: Allocator>[Vec::<T, A>::capacity](v: &Vec<T, A>) -> (r: usize)
        ensures r >= v@.len();
    pub assume_specification<T, A: Allocator>[Vec::<T, A>::shrink_to_fit](v: &mut Vec<T, A>)
        ensures final(v)@ == old(v)@;
    /// std: "If the value is found then Ok is returned, containing the index of the matching element ... If the slice is not sorted, the returned
    /// result is unspecified and meaningless": an uninterpreted function of the slice and the value, with the documented facts for ascending i32 slices
    pub uninterp spec fn binary_search_spec<T>(s: Seq<T>, x: T) -> Result<usize, usize>;
    pub assume_specification<T: Ord>[<[T]>::binary_search](s: &[T], x: &T) -> (r: Result<usize, usize>)
        ensures r == binary_search_spec(s@, *x), match r { Ok(i) => i < s@.len(), Err(i) => i <= s@.len() };
    pub broadcast axiom fn axiom_binary_search_i32(s: Seq<i32>, x: i32)
        requires forall|i: int, j: int| 0 <= i < j < s.len() ==> s[i] <= s[j],
        ensures match #[trigger] binary_search_spec(s, x) { Ok(i) => i < s.len() && s[i as int] == x, Err(_) => !s.contains(x) };
    /// the unstable sort orders the slice like the stable one (std: "sorts the slice"); which of several equal elements comes first is the only difference
    pub uninterp spec fn slice_sorted_unstable<T>(s: Seq<T>) -> Seq<T>;
    pub assume_specification<T: Ord>[<[T]>::sort_unstable](s: &mut [T])
        ensures final(s)@ == slice_sorted_unstable(old(s)@);
    /// equal i32s are indistinguishable, so for i32 the two sorts agree
    pub broadcast axiom fn axiom_slice_sorted_unstable_i32(s: Seq<i32>)
        ensures #[trigger] slice_sorted_unstable(s) == slice_sorted(s);


    // wall clock: now() / elapsed() return arbitrary values (no assumption about time passing)
    #[verifier::external_type_specification]
    #[verifier::external_body]
    pub struct ExInstant(std::time::Instant);
    pub assume_specification[std::time::Instant::now]() -> std::time::Instant;
    /// `d` is a value the clock returned for the time since `i` (nothing is assumed about its size: time passes between readings)
    pub uninterp spec fn elapsed_reading(i: std::time::Instant, d: std::time::Duration) -> bool;
    pub assume_specification[std::time::Instant::elapsed](i: &std::time::Instant) -> (r: std::time::Duration)
        ensures elapsed_reading(*i, r);
    pub uninterp spec fn dur_from_millis(ms: u64) -> std::time::Duration;
    pub assume_specification[std::time::Duration::from_millis](ms: u64) -> (r: std::time::Duration)
        ensures r == dur_from_millis(ms);
    pub uninterp spec fn duration_cmp(a: std::time::Duration, b: std::time::Duration) -> Option<core::cmp::Ordering>;
    pub assume_specification[<std::time::Duration as PartialOrd>::partial_cmp](a: &std::time::Duration, b: &std::time::Duration) -> (r: Option<core::cmp::Ordering>)
        ensures r == duration_cmp(*a, *b);

    /// the map without the entry whose key borrows to `k` (named so that get_mut can say "everything else is unchanged")
    pub uninterp spec fn without_key<K, V, Q: ?Sized>(m: Map<K, V>, k: &Q) -> Map<K, V>;
    pub assume_specification<'a, K: Eq + Hash, V, S: BuildHasher, A: Allocator, Q: Hash + Eq + ?Sized>[HashMap::<K, V, S, A>::get_mut::<Q>](m: &'a mut HashMap<K, V, S, A>, k: &Q) -> (r: Option<&'a mut V>)
        where K: Borrow<Q>
        ensures
            vstd::std_specs::hash::obeys_key_model::<K>() && vstd::std_specs::hash::builds_valid_hashers::<S>() ==> {
                &&& r.is_some() == vstd::std_specs::hash::contains_borrowed_key(old(m)@, k)
                &&& r.is_some() ==> vstd::std_specs::hash::maps_borrowed_key_to_value(old(m)@, k, *r.unwrap())
                &&& r.is_none() ==> final(m)@ == old(m)@
                &&& r.is_some() ==> final(m)@.dom() == old(m)@.dom()
                     && vstd::std_specs::hash::maps_borrowed_key_to_value(final(m)@, k, *final(r.unwrap()))
                     && vstd::std_specs::hash::borrowed_key_removed(old(m)@, without_key(old(m)@, k), k)
                     && vstd::std_specs::hash::borrowed_key_removed(final(m)@, without_key(old(m)@, k), k)
            };
}

pub mod spec {
    #[allow(unused_imports)] use vstd::prelude::*;
    // R7: `E as f32` is re-written to `cast_f32(E)`; the wrapper bodies ARE the original cast.  Verus has no `usize as f32`;
    // the results are deterministic, otherwise uninterpreted, functions of the operand.
    pub uninterp spec fn usize_to_f32(x: usize) -> f32;
    pub uninterp spec fn i32_to_f32(x: i32) -> f32;
    pub uninterp spec fn u32_to_f32(x: u32) -> f32;
    pub trait CastF32: Sized {
        spec fn to_f32_spec(self) -> f32;
        fn cast_f32_m(self) -> (r: f32) ensures r == self.to_f32_spec();
    }
    impl CastF32 for usize {
        open spec fn to_f32_spec(self) -> f32 { usize_to_f32(self) }
        #[verifier::external_body] fn cast_f32_m(self) -> (r: f32) { self as f32 }
    }
    impl CastF32 for i32 {
        open spec fn to_f32_spec(self) -> f32 { i32_to_f32(self) }
        #[verifier::external_body] fn cast_f32_m(self) -> (r: f32) { self as f32 }
    }
    impl CastF32 for u32 {
        open spec fn to_f32_spec(self) -> f32 { u32_to_f32(self) }
        #[verifier::external_body] fn cast_f32_m(self) -> (r: f32) { self as f32 }
    }
    pub fn cast_f32<T: CastF32>(x: T) -> (r: f32) ensures r == x.to_f32_spec() { x.cast_f32_m() }
    /// views with a fixed element type: naming a `vec![]` local through them also tells rustc its element type
    pub open spec fn seq_f32(v: &Vec<f32>) -> Seq<f32> { v@ }
    pub open spec fn seq_i32(v: &Vec<i32>) -> Seq<i32> { v@ }
    pub open spec fn seq_bool(v: &Vec<bool>) -> Seq<bool> { v@ }
    /// the same for an integer local whose type is only inferred later
    pub open spec fn of_usize(x: usize) -> usize { x }
    /// element i of the documented sine wave A*sin(2*pi*x*i + phi), with the f32 operations in the order the formula is written
    pub open spec fn sine_elem(a: f32, x: f32, phi: f32, i: usize) -> f32 {
        f32_mul(a, f_sin(f32_add(f32_mul(f32_mul(f32_mul(2.0f32, f_pi()), x), usize_to_f32(i)), phi)))
    }
    pub uninterp spec fn f_pi() -> f32;
    #[verifier::external_body]
    pub fn f32_pi() -> (r: f32) ensures r == f_pi() { std::f32::consts::PI }
    // R7c (continued): the other constants of core::f32::consts, should a change start using them: wrappers returning the constant itself; the values are uninterpreted
    pub uninterp spec fn f_const_tau() -> f32;
    #[verifier::external_body] pub fn f32_const_tau() -> (r: f32) ensures r == f_const_tau() { std::f32::consts::TAU }
    pub uninterp spec fn f_const_e() -> f32;
    #[verifier::external_body] pub fn f32_const_e() -> (r: f32) ensures r == f_const_e() { std::f32::consts::E }
    pub uninterp spec fn f_const_frac_pi_2() -> f32;
    #[verifier::external_body] pub fn f32_const_frac_pi_2() -> (r: f32) ensures r == f_const_frac_pi_2() { std::f32::consts::FRAC_PI_2 }
    pub uninterp spec fn f_const_frac_pi_3() -> f32;
    #[verifier::external_body] pub fn f32_const_frac_pi_3() -> (r: f32) ensures r == f_const_frac_pi_3() { std::f32::consts::FRAC_PI_3 }
    pub uninterp spec fn f_const_frac_pi_4() -> f32;
    #[verifier::external_body] pub fn f32_const_frac_pi_4() -> (r: f32) ensures r == f_const_frac_pi_4() { std::f32::consts::FRAC_PI_4 }
    pub uninterp spec fn f_const_frac_pi_6() -> f32;
    #[verifier::external_body] pub fn f32_const_frac_pi_6() -> (r: f32) ensures r == f_const_frac_pi_6() { std::f32::consts::FRAC_PI_6 }
    pub uninterp spec fn f_const_frac_pi_8() -> f32;
    #[verifier::external_body] pub fn f32_const_frac_pi_8() -> (r: f32) ensures r == f_const_frac_pi_8() { std::f32::consts::FRAC_PI_8 }
    pub uninterp spec fn f_const_frac_1_pi() -> f32;
    #[verifier::external_body] pub fn f32_const_frac_1_pi() -> (r: f32) ensures r == f_const_frac_1_pi() { std::f32::consts::FRAC_1_PI }
    pub uninterp spec fn f_const_frac_2_pi() -> f32;
    #[verifier::external_body] pub fn f32_const_frac_2_pi() -> (r: f32) ensures r == f_const_frac_2_pi() { std::f32::consts::FRAC_2_PI }
    pub uninterp spec fn f_const_frac_2_sqrt_pi() -> f32;
    #[verifier::external_body] pub fn f32_const_frac_2_sqrt_pi() -> (r: f32) ensures r == f_const_frac_2_sqrt_pi() { std::f32::consts::FRAC_2_SQRT_PI }
    pub uninterp spec fn f_const_sqrt_2() -> f32;
    #[verifier::external_body] pub fn f32_const_sqrt_2() -> (r: f32) ensures r == f_const_sqrt_2() { std::f32::consts::SQRT_2 }
    pub uninterp spec fn f_const_frac_1_sqrt_2() -> f32;
    #[verifier::external_body] pub fn f32_const_frac_1_sqrt_2() -> (r: f32) ensures r == f_const_frac_1_sqrt_2() { std::f32::consts::FRAC_1_SQRT_2 }
    pub uninterp spec fn f_const_ln_2() -> f32;
    #[verifier::external_body] pub fn f32_const_ln_2() -> (r: f32) ensures r == f_const_ln_2() { std::f32::consts::LN_2 }
    pub uninterp spec fn f_const_ln_10() -> f32;
    #[verifier::external_body] pub fn f32_const_ln_10() -> (r: f32) ensures r == f_const_ln_10() { std::f32::consts::LN_10 }
    pub uninterp spec fn f_const_log2_e() -> f32;
    #[verifier::external_body] pub fn f32_const_log2_e() -> (r: f32) ensures r == f_const_log2_e() { std::f32::consts::LOG2_E }
    pub uninterp spec fn f_const_log2_10() -> f32;
    #[verifier::external_body] pub fn f32_const_log2_10() -> (r: f32) ensures r == f_const_log2_10() { std::f32::consts::LOG2_10 }
    pub uninterp spec fn f_const_log10_e() -> f32;
    #[verifier::external_body] pub fn f32_const_log10_e() -> (r: f32) ensures r == f_const_log10_e() { std::f32::consts::LOG10_E }
    pub uninterp spec fn f_const_log10_2() -> f32;
    #[verifier::external_body] pub fn f32_const_log10_2() -> (r: f32) ensures r == f_const_log10_2() { std::f32::consts::LOG10_2 }
    // R7c: the f32 associated constants (no Verus specification for core::f32 constants): wrappers returning the constant itself
    pub uninterp spec fn f_max_value() -> f32;
    pub uninterp spec fn f_min_value() -> f32;
    pub uninterp spec fn f_infinity() -> f32;
    pub uninterp spec fn f_neg_infinity() -> f32;
    pub uninterp spec fn f_epsilon() -> f32;
    pub uninterp spec fn f_nan() -> f32;
    #[verifier::external_body] pub fn f32_max_value() -> (r: f32) ensures r == f_max_value() { f32::MAX }
    #[verifier::external_body] pub fn f32_min_value() -> (r: f32) ensures r == f_min_value() { f32::MIN }
    #[verifier::external_body] pub fn f32_infinity() -> (r: f32) ensures r == f_infinity() { f32::INFINITY }
    #[verifier::external_body] pub fn f32_neg_infinity() -> (r: f32) ensures r == f_neg_infinity() { f32::NEG_INFINITY }
    #[verifier::external_body] pub fn f32_epsilon() -> (r: f32) ensures r == f_epsilon() { f32::EPSILON }
    #[verifier::external_body] pub fn f32_nan() -> (r: f32) ensures r == f_nan() { f32::NAN }
    /// float fact L4 (Kani harness l4_f32_constants): 0.0 <= f32::MAX, 0.0 <= f32::INFINITY, f32::MIN <= 0.0, f32::NEG_INFINITY <= 0.0
    pub broadcast axiom fn ax_f32_constants()
        ensures #![trigger f_max_value()] #![trigger f_infinity()] #![trigger f_min_value()] #![trigger f_neg_infinity()]
            f32_le(0.0f32, f_max_value()), f32_le(0.0f32, f_infinity()), f32_le(f_min_value(), 0.0f32), f32_le(f_neg_infinity(), 0.0f32);
    /// f32::clamp as std implements it: NaN passes through; panics unless min <= max (which excludes NaN bounds)
    pub open spec fn f_clamp(x: f32, lo: f32, hi: f32) -> f32 { if f32_lt(x, lo) { lo } else if f32_gt(x, hi) { hi } else { x } }
    // R15: str operations of the parser, as wrappers whose bodies are the original calls.  ASSUMED (std documentation of each method): the
    // results are the functions of the character sequence stated below.  What a token splits into and what parses as a number stay uninterpreted.
    /// the first n characters of s are ASCII, so byte offset n is character offset n and lies on a character boundary (`&s[n..]` cannot panic)
    pub uninterp spec fn str_tail_ok(s: Seq<char>, n: nat) -> bool;
    pub open spec fn is_suffix(p: Seq<char>, s: Seq<char>) -> bool { p.len() <= s.len() && s.skip(s.len() - p.len()) =~= p }
    /// `s.split(p)`: the pieces between occurrences of p, in order (uninterpreted)
    pub uninterp spec fn str_split(s: Seq<char>, p: Seq<char>) -> Seq<Seq<char>>;
    /// `s.parse::<i32>()` / `s.parse::<f32>()` succeed with this value (uninterpreted; a pure function of the characters)
    pub uninterp spec fn parse_i32_spec(s: Seq<char>) -> Option<i32>;
    pub uninterp spec fn parse_f32_spec(s: Seq<char>) -> Option<f32>;
    #[verifier::external_body]
    pub fn starts_with_lit(s: &str, p: &str) -> (r: bool)
        requires p.is_ascii(),
        ensures r == p@.is_prefix_of(s@), r ==> str_tail_ok(s@, p@.len()),
    { s.starts_with(p) }
    #[verifier::external_body]
    pub fn str_tail<'a>(s: &'a str, n: usize) -> (r: &'a str)
        requires str_tail_ok(s@, n as nat),
        ensures r@ == s@.skip(n as int),
    { &s[n..] }
    #[verifier::external_body]
    pub fn strip_suffix_lit<'a>(s: &'a str, p: &str) -> (r: Option<&'a str>)
        ensures match r { Some(x) => is_suffix(p@, s@) && x@ == s@.take(s@.len() - p@.len()), None => !is_suffix(p@, s@) },
    { s.strip_suffix(p) }
    /// the pieces of `s.split(p)`, collected (split is lazy but pure: the same pieces in the same order)
    #[verifier::external_body]
    pub fn split_lit<'a>(s: &'a str, p: &str) -> (r: Vec<&'a str>)
        ensures r@.len() == str_split(s@, p@).len(), forall|i: int| 0 <= i < r@.len() ==> (#[trigger] r@[i])@ == str_split(s@, p@)[i],
    { s.split(p).collect() }
    #[verifier::external_body]
    pub fn parse_i32(s: &String) -> (r: Result<i32, core::num::ParseIntError>)
        ensures match r { Ok(v) => parse_i32_spec(s@) == Some(v), Err(_) => parse_i32_spec(s@) is None },
    { s.parse::<i32>() }
    #[verifier::external_body]
    pub fn parse_i32_str(s: &str) -> (r: Result<i32, core::num::ParseIntError>)
        ensures match r { Ok(v) => parse_i32_spec(s@) == Some(v), Err(_) => parse_i32_spec(s@) is None },
    { s.parse::<i32>() }
    #[verifier::external_body]
    pub fn parse_f32_str(s: &str) -> (r: Result<f32, core::num::ParseFloatError>)
        ensures match r { Ok(v) => parse_f32_spec(s@) == Some(v), Err(_) => parse_f32_spec(s@) is None },
    { s.parse::<f32>() }
    #[verifier::external_body]
    pub fn ends_with_lit(s: &str, p: &str) -> (r: bool)
        ensures r == is_suffix(p@, s@),
    { s.ends_with(p) }
    #[verifier::external_body]
    pub fn strip_prefix_lit<'a>(s: &'a str, p: &str) -> (r: Option<&'a str>)
        ensures match r { Some(x) => p@.is_prefix_of(s@) && x@ == s@.skip(p@.len() as int), None => !p@.is_prefix_of(s@) },
    { s.strip_prefix(p) }
    /// `s.trim()` (uninterpreted pure function of the characters)
    pub uninterp spec fn str_trim(s: Seq<char>) -> Seq<char>;
    pub uninterp spec fn str_trim_end_matches(s: Seq<char>, p: Seq<char>) -> Seq<char>;
    pub uninterp spec fn str_trim_start_matches(s: Seq<char>, p: Seq<char>) -> Seq<char>;
    #[verifier::external_body]
    pub fn trim_end_matches_lit<'a>(s: &'a str, p: &str) -> (r: &'a str) ensures r@ == str_trim_end_matches(s@, p@) { s.trim_end_matches(p) }
    #[verifier::external_body]
    pub fn trim_start_matches_lit<'a>(s: &'a str, p: &str) -> (r: &'a str) ensures r@ == str_trim_start_matches(s@, p@) { s.trim_start_matches(p) }
    // the other splitting methods and the other numeric parsers, should a change start using them: deterministic, uninterpreted, and DIFFERENT
    // functions (so that one used in place of another is noticed)
    pub uninterp spec fn str_split_terminator(s: Seq<char>, p: Seq<char>) -> Seq<Seq<char>>;
    pub uninterp spec fn str_rsplit(s: Seq<char>, p: Seq<char>) -> Seq<Seq<char>>;
    pub uninterp spec fn str_split_inclusive(s: Seq<char>, p: Seq<char>) -> Seq<Seq<char>>;
    #[verifier::external_body]
    pub fn split_terminator_lit<'a>(s: &'a str, p: &str) -> (r: Vec<&'a str>)
        ensures r@.len() == str_split_terminator(s@, p@).len(), forall|i: int| 0 <= i < r@.len() ==> (#[trigger] r@[i])@ == str_split_terminator(s@, p@)[i],
    { s.split_terminator(p).collect() }
    #[verifier::external_body]
    pub fn rsplit_lit<'a>(s: &'a str, p: &str) -> (r: Vec<&'a str>)
        ensures r@.len() == str_rsplit(s@, p@).len(), forall|i: int| 0 <= i < r@.len() ==> (#[trigger] r@[i])@ == str_rsplit(s@, p@)[i],
    { s.rsplit(p).collect() }
    #[verifier::external_body]
    pub fn split_inclusive_lit<'a>(s: &'a str, p: &str) -> (r: Vec<&'a str>)
        ensures r@.len() == str_split_inclusive(s@, p@).len(), forall|i: int| 0 <= i < r@.len() ==> (#[trigger] r@[i])@ == str_split_inclusive(s@, p@)[i],
    { s.split_inclusive(p).collect() }
    pub uninterp spec fn parse_i8_spec(s: Seq<char>) -> Option<i8>;
    #[verifier::external_body]
    pub fn parse_i8_str(s: &str) -> (r: Result<i8, core::num::ParseIntError>)
        ensures match r { Ok(v) => parse_i8_spec(s@) == Some(v), Err(_) => parse_i8_spec(s@) is None },
    { s.parse::<i8>() }
    pub uninterp spec fn parse_i16_spec(s: Seq<char>) -> Option<i16>;
    #[verifier::external_body]
    pub fn parse_i16_str(s: &str) -> (r: Result<i16, core::num::ParseIntError>)
        ensures match r { Ok(v) => parse_i16_spec(s@) == Some(v), Err(_) => parse_i16_spec(s@) is None },
    { s.parse::<i16>() }
    pub uninterp spec fn parse_i64_spec(s: Seq<char>) -> Option<i64>;
    #[verifier::external_body]
    pub fn parse_i64_str(s: &str) -> (r: Result<i64, core::num::ParseIntError>)
        ensures match r { Ok(v) => parse_i64_spec(s@) == Some(v), Err(_) => parse_i64_spec(s@) is None },
    { s.parse::<i64>() }
    pub uninterp spec fn parse_i128_spec(s: Seq<char>) -> Option<i128>;
    #[verifier::external_body]
    pub fn parse_i128_str(s: &str) -> (r: Result<i128, core::num::ParseIntError>)
        ensures match r { Ok(v) => parse_i128_spec(s@) == Some(v), Err(_) => parse_i128_spec(s@) is None },
    { s.parse::<i128>() }
    pub uninterp spec fn parse_isize_spec(s: Seq<char>) -> Option<isize>;
    #[verifier::external_body]
    pub fn parse_isize_str(s: &str) -> (r: Result<isize, core::num::ParseIntError>)
        ensures match r { Ok(v) => parse_isize_spec(s@) == Some(v), Err(_) => parse_isize_spec(s@) is None },
    { s.parse::<isize>() }
    pub uninterp spec fn parse_u8_spec(s: Seq<char>) -> Option<u8>;
    #[verifier::external_body]
    pub fn parse_u8_str(s: &str) -> (r: Result<u8, core::num::ParseIntError>)
        ensures match r { Ok(v) => parse_u8_spec(s@) == Some(v), Err(_) => parse_u8_spec(s@) is None },
    { s.parse::<u8>() }
    pub uninterp spec fn parse_u16_spec(s: Seq<char>) -> Option<u16>;
    #[verifier::external_body]
    pub fn parse_u16_str(s: &str) -> (r: Result<u16, core::num::ParseIntError>)
        ensures match r { Ok(v) => parse_u16_spec(s@) == Some(v), Err(_) => parse_u16_spec(s@) is None },
    { s.parse::<u16>() }
    pub uninterp spec fn parse_u32_spec(s: Seq<char>) -> Option<u32>;
    #[verifier::external_body]
    pub fn parse_u32_str(s: &str) -> (r: Result<u32, core::num::ParseIntError>)
        ensures match r { Ok(v) => parse_u32_spec(s@) == Some(v), Err(_) => parse_u32_spec(s@) is None },
    { s.parse::<u32>() }
    pub uninterp spec fn parse_u64_spec(s: Seq<char>) -> Option<u64>;
    #[verifier::external_body]
    pub fn parse_u64_str(s: &str) -> (r: Result<u64, core::num::ParseIntError>)
        ensures match r { Ok(v) => parse_u64_spec(s@) == Some(v), Err(_) => parse_u64_spec(s@) is None },
    { s.parse::<u64>() }
    pub uninterp spec fn parse_u128_spec(s: Seq<char>) -> Option<u128>;
    #[verifier::external_body]
    pub fn parse_u128_str(s: &str) -> (r: Result<u128, core::num::ParseIntError>)
        ensures match r { Ok(v) => parse_u128_spec(s@) == Some(v), Err(_) => parse_u128_spec(s@) is None },
    { s.parse::<u128>() }
    pub uninterp spec fn parse_usize_spec(s: Seq<char>) -> Option<usize>;
    #[verifier::external_body]
    pub fn parse_usize_str(s: &str) -> (r: Result<usize, core::num::ParseIntError>)
        ensures match r { Ok(v) => parse_usize_spec(s@) == Some(v), Err(_) => parse_usize_spec(s@) is None },
    { s.parse::<usize>() }
    pub uninterp spec fn parse_f64_spec(s: Seq<char>) -> Option<f64>;
    #[verifier::external_body]
    pub fn parse_f64_str(s: &str) -> (r: Result<f64, core::num::ParseFloatError>)
        ensures match r { Ok(v) => parse_f64_spec(s@) == Some(v), Err(_) => parse_f64_spec(s@) is None },
    { s.parse::<f64>() }
    #[verifier::external_body]
    pub fn parse_f32(s: &String) -> (r: Result<f32, core::num::ParseFloatError>)
        ensures match r { Ok(v) => parse_f32_spec(s@) == Some(v), Err(_) => parse_f32_spec(s@) is None },
    { s.parse::<f32>() }
    // R17: `Vec::with_capacity(n)` panics ("capacity overflow") when n elements of T exceed isize::MAX bytes.  cap_ok::<T>(n) stands for "they fit";
    // it is known for n within the envelope's allocation bound (2^31-1 elements; the crate's element types are a few bytes to a few hundred bytes)
    // and for n up to the length of a vector that already exists in memory (ASSUMED: a 2^48-byte address space and element types below 32 KiB,
    // so that many elements of any of the crate's types stay far below isize::MAX bytes).
    pub uninterp spec fn cap_ok<T>(n: usize) -> bool;
    pub broadcast axiom fn ax_cap_small<T>(n: usize)
        ensures n <= 0x7fff_ffff ==> #[trigger] cap_ok::<T>(n);
    pub broadcast axiom fn ax_cap_existing<T, U>(v: Vec<U>, n: usize)
        ensures #![trigger v@.len(), cap_ok::<T>(n)] n <= v@.len() ==> cap_ok::<T>(n);
    #[verifier::external_body]
    pub fn vec_with_capacity<T>(n: usize) -> (r: Vec<T>)
        requires cap_ok::<T>(n),
        ensures r@.len() == 0,
    { Vec::with_capacity(n) }
    // R14: the additive identity std's `impl Sum for f32` starts from (0.0 or -0.0 depending on the toolchain): the wrapper's body is the empty sum itself
    pub uninterp spec fn f_sum_identity() -> f32;
    #[verifier::external_body]
    pub fn f32_sum_identity() -> (r: f32) ensures r == f_sum_identity() { let e: [f32; 0] = []; e.iter().sum() }
    /// the left-to-right f32 sum of the first k elements, starting from std's identity
    pub open spec fn fsum(s: Seq<f32>, k: nat) -> f32
        decreases k,
    {
        if k == 0 || k > s.len() { f_sum_identity() } else { f32_add(fsum(s, (k - 1) as nat), s[k - 1]) }
    }
    // R13: `v.sort_by(|a, b| a.partial_cmp(b).unwrap())` and `v.sort_by(|a, b| a.total_cmp(b))` -- wrappers whose bodies are these calls.
    // ASSUMED (std: stable sort by the comparator): the result is a permutation of the input, ordered by the comparator; for bool the
    // comparator is false < true; for f32 total_cmp is an uninterpreted total preorder `f_total_le`.
    pub uninterp spec fn sorted_bools(s: Seq<bool>) -> Seq<bool>;
    pub broadcast axiom fn ax_sorted_bools(s: Seq<bool>)
        ensures (#[trigger] sorted_bools(s)).len() == s.len(), sorted_bools(s).to_multiset() == s.to_multiset(),
            forall|i: int, j: int| 0 <= i < j < s.len() ==> (sorted_bools(s)[i] ==> sorted_bools(s)[j]);
    #[verifier::external_body]
    pub fn sort_by_partial_cmp(v: &mut Vec<bool>)
        ensures final(v)@ == sorted_bools(old(v)@),
    { v.sort_by(|a, b| a.partial_cmp(b).unwrap()) }
    pub uninterp spec fn f_total_le(a: f32, b: f32) -> bool;
    pub uninterp spec fn sorted_floats(s: Seq<f32>) -> Seq<f32>;
    pub broadcast axiom fn ax_sorted_floats(s: Seq<f32>)
        ensures (#[trigger] sorted_floats(s)).len() == s.len(), sorted_floats(s).to_multiset() == s.to_multiset(),
            forall|i: int, j: int| 0 <= i < j < s.len() ==> f_total_le(sorted_floats(s)[i], sorted_floats(s)[j]);
    #[verifier::external_body]
    pub fn sort_by_total_cmp(v: &mut Vec<f32>)
        ensures final(v)@ == sorted_floats(old(v)@),
    { v.sort_by(|a, b| a.total_cmp(b)) }
    // R11: printing a value through its Display impl is a deterministic function of the value; the text itself stays uninterpreted
    #[verifier::external_trait_specification]
    pub trait ExDisplay: core::marker::PointeeSized {
        type ExternalTraitSpecificationFor: core::fmt::Display;
    }
    pub uninterp spec fn str_of<T>(x: T) -> Seq<char>;
    #[verifier::external_body]
    pub fn to_string_w<T: core::fmt::Display>(x: &T) -> (r: String)
        ensures r@ == str_of(*x),
    { x.to_string() }
    // R11b: the crate's printing trait PushPrint::to_pstring on a generic element
    pub uninterp spec fn pstr_of<T>(x: T) -> Seq<char>;
    #[verifier::external_body]
    pub fn to_pstring_w<T: crate::push::stack::PushPrint>(x: &T) -> (r: String)
        ensures r@ == pstr_of(*x),
    { x.to_pstring() }
    // R20: `m.entry(k).or_insert(v);` (std: "ensures a value is in the entry by inserting the default if empty")
    #[verifier::external_body]
    pub fn map_entry_or_insert<K: core::cmp::Eq + core::hash::Hash, V>(m: &mut std::collections::HashMap<K, V>, k: K, v: V)
        ensures vstd::std_specs::hash::obeys_key_model::<K>() ==> final(m)@ == (if old(m)@.contains_key(k) { old(m)@ } else { old(m)@.insert(k, v) }),
    { m.entry(k).or_insert(v); }
    // R19: the two one-argument format! calls of the crate's printing functions
    #[verifier::external_body]
    pub fn format_sp_display<T: core::fmt::Display>(x: &T) -> (r: String)
        ensures r@ == seq![' '] + str_of(*x),
    { format!(" {}", x) }
    #[verifier::external_body]
    pub fn format_display<T: core::fmt::Display>(x: &T) -> (r: String)
        ensures r@ == str_of(*x),
    { format!("{}", x) }
    pub uninterp spec fn f32_to_usize_spec(x: f32) -> usize;
    pub uninterp spec fn f32_to_i32_spec(x: f32) -> i32;
    #[verifier::external_body]
    pub fn f32_to_i32(x: f32) -> (r: i32) ensures r == f32_to_i32_spec(x) { x as i32 }
    #[verifier::external_body]
    pub fn f32_to_usize(x: f32) -> (r: usize) ensures r == f32_to_usize_spec(x) { x as usize }
    #[allow(unused_imports)] use vstd::std_specs::ops::*;
    #[allow(unused_imports)] use vstd::std_specs::cmp::*;

    // ---- sequence vocabulary for stack contracts (bottom first, top = last) ----
    /// the stack without its n top-most items
    pub open spec fn drop_n<T>(s: Seq<T>, n: int) -> Seq<T> { s.subrange(0, s.len() - n) }
    /// item at position i counted from the top (0 = top)
    pub open spec fn top<T>(s: Seq<T>, i: int) -> T { s[s.len() - 1 - i] }
    /// b is a with at most `need` items removed from the top and nothing added
    pub open spec fn shrunk<T>(a: Seq<T>, b: Seq<T>, need: int) -> bool {
        b.len() <= a.len() && a.len() - need <= b.len() && b =~= a.subrange(0, b.len() as int)
    }
    /// b is a after at most `maxpop` items were taken from the top and at most `maxpush` pushed: everything below is untouched
    pub open spec fn below_kept<T>(a: Seq<T>, b: Seq<T>, maxpop: int, maxpush: int) -> bool {
        let keep = if a.len() >= maxpop { a.len() - maxpop } else { 0 };
        keep <= b.len() <= a.len() + maxpush && b.subrange(0, keep) =~= a.subrange(0, keep)
    }
    /// index operand clamped into 0..n-1 (0 when n == 0): "clamped into the valid range"
    pub open spec fn clamp_idx(i: int, n: int) -> int {
        if n <= 0 { 0 } else if i < 0 { 0 } else if i > n - 1 { n - 1 } else { i }
    }
    /// a count operand clamped into 0..=avail
    pub open spec fn clamp_count(n: int, avail: int) -> int { if n < 0 { 0 } else if n > avail { avail } else { n } }
    /// YANK: item at position k from the top moves to the top
    pub open spec fn yank_seq<T>(s: Seq<T>, k: int) -> Seq<T> {
        if 0 < k < s.len() { s.remove(s.len() - 1 - k).push(s[s.len() - 1 - k]) } else { s }
    }
    /// SHOVE: the top item moves to position k from the top
    pub open spec fn shove_seq<T>(s: Seq<T>, k: int) -> Seq<T> {
        if 0 < k < s.len() { s.drop_last().insert(s.len() - 1 - k, s.last()) } else { s }
    }
    /// Rust's integer division / remainder (truncated toward zero), for b != 0
    pub open spec fn trunc_div(a: int, b: int) -> int {
        if (a >= 0) == (b > 0) || a % b == 0 { a / b } else { a / b + (if b > 0 { 1int } else { -1int }) }
    }
    pub open spec fn trunc_rem(a: int, b: int) -> int { a - b * trunc_div(a, b) }
    /// element-wise combination of `top`, shifted by `offset`, into `second` (README: "on the overlapping parts"):
    /// position j of the result is op(second[j], top[j - offset]) where the shifted top vector covers j, else second[j]
    pub open spec fn overlay<T>(second: Seq<T>, top: Seq<T>, offset: int, op: spec_fn(T, T) -> T) -> Seq<T> {
        Seq::new(second.len(), |j: int| if 0 <= j - offset < top.len() { op(second[j], top[j - offset]) } else { second[j] })
    }
    /// the same after only the first `done` elements of `top` have been combined (loop invariant form)
    pub open spec fn overlay_upto<T>(second: Seq<T>, top: Seq<T>, offset: int, op: spec_fn(T, T) -> T, done: int) -> Seq<T> {
        Seq::new(second.len(), |j: int| if 0 <= j - offset < done && j - offset < top.len() { op(second[j], top[j - offset]) } else { second[j] })
    }
    pub open spec fn sat_abs(x: i32) -> int { if x == i32::MIN { i32::MAX as int } else if x < 0 { -(x as int) } else { x as int } }
    pub open spec fn in_i32(x: int) -> bool { i32::MIN <= x <= i32::MAX }
    /// two's complement wrap-around of a mathematical integer into i32
    pub open spec fn wrap32(x: int) -> i32 {
        let m = x % 0x1_0000_0000;
        if m >= 0x8000_0000 { (m - 0x1_0000_0000) as i32 } else { m as i32 }
    }

    // ---- A-float: f32 arithmetic and comparisons are total, deterministic functions of their operands.
    // Nothing about the VALUES is assumed (add_spec, partial_cmp_spec, eq_spec stay uninterpreted for f32).
    pub broadcast axiom fn ax_f32_add_req(a: f32, b: f32) ensures #[trigger] a.add_req(b);
    pub broadcast axiom fn ax_f32_sub_req(a: f32, b: f32) ensures #[trigger] a.sub_req(b);
    pub broadcast axiom fn ax_f32_mul_req(a: f32, b: f32) ensures #[trigger] a.mul_req(b);
    pub broadcast axiom fn ax_f32_div_req(a: f32, b: f32) ensures #[trigger] a.div_req(b);
    pub broadcast axiom fn ax_f32_rem_req(a: f32, b: f32) ensures #[trigger] a.rem_req(b);
    #[verifier::allow(broadcast_without_trigger)]
    pub broadcast axiom fn ax_f32_obeys()
        ensures
            <f32 as AddSpec>::obeys_add_spec(), <f32 as SubSpec>::obeys_sub_spec(),
            <f32 as MulSpec>::obeys_mul_spec(), <f32 as DivSpec>::obeys_div_spec(),
            <f32 as RemSpec>::obeys_rem_spec(),
            <f32 as PartialOrdSpec>::obeys_partial_cmp_spec(), <f32 as PartialEqSpec>::obeys_eq_spec();
    /// float fact L5 (IEEE comparison duality; checked by Kani `l5_f32_comparison_duality`, loop-free, all pairs of f32): swapping the operands
    /// mirrors the outcome, `==` is symmetric and agrees with the ordering's Equal
    pub open spec fn ord_reverse(o: Option<core::cmp::Ordering>) -> Option<core::cmp::Ordering> {
        match o {
            Some(core::cmp::Ordering::Less) => Some(core::cmp::Ordering::Greater),
            Some(core::cmp::Ordering::Greater) => Some(core::cmp::Ordering::Less),
            Some(core::cmp::Ordering::Equal) => Some(core::cmp::Ordering::Equal),
            None => None,
        }
    }
    pub broadcast axiom fn ax_f32_cmp_duality(a: f32, b: f32)
        ensures #[trigger] a.partial_cmp_spec(&b) == ord_reverse(b.partial_cmp_spec(&a));
    pub broadcast axiom fn ax_f32_eq_symmetric(a: f32, b: f32)
        ensures #[trigger] a.eq_spec(&b) == b.eq_spec(&a), a.eq_spec(&b) == (a.partial_cmp_spec(&b) == Some(core::cmp::Ordering::Equal));
    pub broadcast group group_float_total {
        ax_f32_cmp_duality, ax_f32_eq_symmetric, ax_f32_add_req, ax_f32_sub_req, ax_f32_mul_req, ax_f32_div_req, ax_f32_rem_req, ax_f32_obeys, ax_normal_std_ok, ax_f32_constants, ax_sorted_bools, ax_sorted_floats,
    }
    pub open spec fn f32_add(a: f32, b: f32) -> f32 { a.add_spec(b) }
    pub open spec fn f32_sub(a: f32, b: f32) -> f32 { a.sub_spec(b) }
    pub open spec fn f32_mul(a: f32, b: f32) -> f32 { a.mul_spec(b) }
    pub open spec fn f32_div(a: f32, b: f32) -> f32 { a.div_spec(b) }
    pub open spec fn f32_rem(a: f32, b: f32) -> f32 { a.rem_spec(b) }
    /// the IEEE comparisons the exec operators compute, as (uninterpreted) spec functions
    pub open spec fn f32_lt(a: f32, b: f32) -> bool { a.partial_cmp_spec(&b) == Some(core::cmp::Ordering::Less) }
    pub open spec fn f32_gt(a: f32, b: f32) -> bool { a.partial_cmp_spec(&b) == Some(core::cmp::Ordering::Greater) }
    pub open spec fn f32_le(a: f32, b: f32) -> bool { a.partial_cmp_spec(&b) == Some(core::cmp::Ordering::Less) || a.partial_cmp_spec(&b) == Some(core::cmp::Ordering::Equal) }
    pub open spec fn f32_eq(a: f32, b: f32) -> bool { a.eq_spec(&b) }
    pub open spec fn f32_ge(a: f32, b: f32) -> bool { a.partial_cmp_spec(&b) == Some(core::cmp::Ordering::Greater) || a.partial_cmp_spec(&b) == Some(core::cmp::Ordering::Equal) }
    /// float lemma L2 (discharged bit-precisely by the Kani harness `l2_normal_new` against rand_distr's real code):
    /// Normal::new(mean, s) of rand_distr 0.4.3 succeeds exactly when s is finite (negative s is accepted by the crate)
    pub broadcast axiom fn ax_normal_std_ok(s: f32)
        ensures #[trigger] crate::rand_stub::normal_std_ok(s) <==> f_is_finite(s);
    // A-hash: String's Hash and Eq are consistent (vstd has this for the primitive key types)
    #[verifier::allow(broadcast_without_trigger)]
    pub broadcast axiom fn ax_string_key_model() ensures vstd::std_specs::hash::obeys_key_model::<String>();
    /// A-hash (continued): looking a String-keyed map up with a &str finds the String with the same characters
    pub broadcast axiom fn ax_string_borrow_contains<V>(m: Map<String, V>, k: &str, s: String)
        ensures s@ == k@ ==> (#[trigger] vstd::std_specs::hash::contains_borrowed_key::<String, V, str>(m, k) == #[trigger] m.contains_key(s));
    pub broadcast axiom fn ax_string_borrow_maps<V>(m: Map<String, V>, k: &str, s: String, v: V)
        ensures s@ == k@ ==> (#[trigger] vstd::std_specs::hash::maps_borrowed_key_to_value::<String, V, str>(m, k, v) == (#[trigger] m.contains_key(s) && m[s] == v));
    /// A-hash (continued): a key that maps to a value is contained
    pub broadcast axiom fn ax_string_borrow_maps_contains<V>(m: Map<String, V>, k: &str, v: V)
        ensures #[trigger] vstd::std_specs::hash::maps_borrowed_key_to_value::<String, V, str>(m, k, v) ==> vstd::std_specs::hash::contains_borrowed_key::<String, V, str>(m, k);
    /// A-string-ext: two Strings with the same characters are the same value (the map axioms above already rely on this), and a String prints as itself
    pub broadcast axiom fn ax_string_ext(a: String, b: String)
        ensures #![trigger a@, b@] a@ == b@ ==> a == b;
    /// A-string-ext (continued): the same for string slices (a `match` on a &str against literals compares the slices themselves)
    pub broadcast axiom fn ax_str_ext(a: &str, b: &str)
        ensures #![trigger a@, b@] a@ == b@ ==> a == b;
    pub broadcast axiom fn ax_str_of_string(s: String)
        ensures #[trigger] str_of(s) == s@;
    /// A-string-eq (continued): `String == str` is character-wise equality
    pub assume_specification[<String as PartialEq<str>>::eq](a: &String, b: &str) -> (r: bool)
        ensures r == (a@ == b@);
    /// A-string-eq: `&String == &String` is character-wise equality (vstd specifies this only for `String == String` by value)
    #[verifier::allow(broadcast_without_trigger)]
    pub broadcast axiom fn ax_string_obeys_eq() ensures <String as PartialEqSpec>::obeys_eq_spec();
    pub broadcast axiom fn ax_string_eq_spec(a: String, b: String)
        ensures #[trigger] a.eq_spec(&b) == (a@ == b@);
    // A-clone: the derived Clone of the crate's data types returns a structurally equal value
    pub broadcast axiom fn ax_clone_item(a: crate::push::item::Item, b: crate::push::item::Item) ensures #[trigger] cloned(a, b) ==> a == b;
    pub broadcast axiom fn ax_clone_boolvector(a: crate::push::vector::BoolVector, b: crate::push::vector::BoolVector) ensures #[trigger] cloned(a, b) ==> a == b;
    pub broadcast axiom fn ax_clone_intvector(a: crate::push::vector::IntVector, b: crate::push::vector::IntVector) ensures #[trigger] cloned(a, b) ==> a == b;
    pub broadcast axiom fn ax_clone_floatvector(a: crate::push::vector::FloatVector, b: crate::push::vector::FloatVector) ensures #[trigger] cloned(a, b) ==> a == b;
    pub broadcast axiom fn ax_clone_index(a: crate::push::index::Index, b: crate::push::index::Index) ensures #[trigger] cloned(a, b) ==> a == b;
    pub broadcast axiom fn ax_clone_graph(a: crate::push::graph::Graph, b: crate::push::graph::Graph) ensures #[trigger] cloned(a, b) ==> a == b;
    pub broadcast axiom fn ax_clone_message(a: crate::push::io::PushMessage, b: crate::push::io::PushMessage) ensures #[trigger] cloned(a, b) ==> a == b;
    pub assume_specification[<crate::push::item::Item as Clone>::clone](a: &crate::push::item::Item) -> (b: crate::push::item::Item) ensures b == *a;
    pub assume_specification[<crate::push::vector::BoolVector as Clone>::clone](a: &crate::push::vector::BoolVector) -> (b: crate::push::vector::BoolVector) ensures b == *a;
    pub assume_specification[<crate::push::vector::IntVector as Clone>::clone](a: &crate::push::vector::IntVector) -> (b: crate::push::vector::IntVector) ensures b == *a;
    pub assume_specification[<crate::push::vector::FloatVector as Clone>::clone](a: &crate::push::vector::FloatVector) -> (b: crate::push::vector::FloatVector) ensures b == *a;
    pub assume_specification[<crate::push::index::Index as Clone>::clone](a: &crate::push::index::Index) -> (b: crate::push::index::Index) ensures b == *a;
    pub assume_specification[<crate::push::graph::Graph as Clone>::clone](a: &crate::push::graph::Graph) -> (b: crate::push::graph::Graph) ensures b == *a;
    pub assume_specification[<crate::push::io::PushMessage as Clone>::clone](a: &crate::push::io::PushMessage) -> (b: crate::push::io::PushMessage) ensures b == *a;
    pub broadcast group group_clone {
        ax_cap_small, ax_cap_existing, ax_string_key_model, ax_string_obeys_eq, ax_string_eq_spec, ax_str_of_string, ax_string_borrow_contains, ax_string_borrow_maps, ax_string_borrow_maps_contains, ax_clone_item, ax_clone_boolvector, ax_clone_intvector, ax_clone_floatvector, ax_clone_index, ax_clone_graph, ax_clone_message,
    }
    
    /// C01's resource envelope: every stack, vector and record is smaller than 2^31-1 items.
    /// (C15 is about the envelope itself.)  It is the only global precondition of instruction units.
    /// data-structure invariants of the state (the three ring buffers); proved preserved by every instruction row
    pub open spec fn state_wf(s: crate::push::state::PushState) -> bool {
        s.input_stack.wf() && s.output_stack.wf() && s.graph_stack.wf()
        && s.input_stack.is_queue() && s.output_stack.is_queue() && !s.graph_stack.is_queue()
        && (forall|i: int| 0 <= i < s.graph_stack.n() ==> (#[trigger] s.graph_stack.live()[i]).wf())
    }
    pub open spec fn envelope(s: crate::push::state::PushState) -> bool {
        &&& state_wf(s)
        &&& s.bool_stack@.len() < 0x7fff_ffff
        &&& s.code_stack@.len() < 0x7fff_ffff
        &&& s.exec_stack@.len() < 0x7fff_ffff
        &&& s.float_stack@.len() < 0x7fff_ffff
        &&& s.index_stack@.len() < 0x7fff_ffff
        &&& s.int_stack@.len() < 0x7fff_ffff
        &&& s.name_stack@.len() < 0x7fff_ffff
        &&& s.bool_vector_stack@.len() < 0x7fff_ffff
        &&& s.float_vector_stack@.len() < 0x7fff_ffff
        &&& s.int_vector_stack@.len() < 0x7fff_ffff
        &&& forall|i: int| 0 <= i < s.code_stack@.len() ==> crate::push::item::points(#[trigger] s.code_stack@[i]) < 0x7fff_ffff
        &&& forall|i: int| 0 <= i < s.exec_stack@.len() ==> crate::push::item::points(#[trigger] s.exec_stack@[i]) < 0x7fff_ffff
        &&& forall|i: int| 0 <= i < s.input_stack.n() ==> (#[trigger] s.input_stack.live()[i]).body.values@.len() < 0x7fff_ffff
        &&& forall|i: int| 0 <= i < s.bool_vector_stack@.len() ==> (#[trigger] s.bool_vector_stack@[i]).values@.len() < 0x7fff_ffff
        &&& forall|i: int| 0 <= i < s.int_vector_stack@.len() ==> (#[trigger] s.int_vector_stack@[i]).values@.len() < 0x7fff_ffff
        &&& forall|i: int| 0 <= i < s.float_vector_stack@.len() ==> (#[trigger] s.float_vector_stack@[i]).values@.len() < 0x7fff_ffff
    }
    
    
    pub uninterp spec fn f_trunc(x: f32) -> f32;
    pub uninterp spec fn f_floor(x: f32) -> f32;
    pub uninterp spec fn f_abs(x: f32) -> f32;
    pub uninterp spec fn f_signum(x: f32) -> f32;
    pub uninterp spec fn f_to_bits(x: f32) -> u32;
    pub uninterp spec fn f_is_infinite(x: f32) -> bool;
    pub uninterp spec fn f_is_sign_negative(x: f32) -> bool;
    pub uninterp spec fn f_is_finite(x: f32) -> bool;
    pub uninterp spec fn f_is_nan(x: f32) -> bool;
    pub uninterp spec fn f_sin(x: f32) -> f32;
    pub uninterp spec fn f_cos(x: f32) -> f32;
    pub uninterp spec fn f_tan(x: f32) -> f32;
    pub uninterp spec fn f_exp(x: f32) -> f32;
    pub uninterp spec fn f_sqrt(x: f32) -> f32;
    pub uninterp spec fn f_ceil(x: f32) -> f32;
    pub uninterp spec fn f_round(x: f32) -> f32;
    pub uninterp spec fn f_powf(x: f32, y: f32) -> f32;
    pub uninterp spec fn f_max(x: f32, y: f32) -> f32;
    pub uninterp spec fn f_min(x: f32, y: f32) -> f32;
    pub uninterp spec fn fx_hypot(x: f32, y: f32) -> f32;
    pub uninterp spec fn fx_powi(x: f32, n: i32) -> f32;
    pub uninterp spec fn fx_ln(x: f32) -> f32;
    pub uninterp spec fn fx_log10(x: f32) -> f32;
    pub uninterp spec fn fx_log2(x: f32) -> f32;
    pub uninterp spec fn fx_exp2(x: f32) -> f32;
    pub uninterp spec fn fx_mul_add(x: f32, y: f32, z: f32) -> f32;
    pub uninterp spec fn fx_rem_euclid(x: f32, y: f32) -> f32;
    pub uninterp spec fn fx_fract(x: f32) -> f32;
    pub uninterp spec fn fx_recip(x: f32) -> f32;
    pub uninterp spec fn fx_copysign(x: f32, y: f32) -> f32;
    pub uninterp spec fn fx_to_degrees(x: f32) -> f32;
    pub uninterp spec fn fx_to_radians(x: f32) -> f32;
    pub uninterp spec fn fx_atan2(x: f32, y: f32) -> f32;
    pub uninterp spec fn fx_atan(x: f32) -> f32;
    pub uninterp spec fn fx_asin(x: f32) -> f32;
    pub uninterp spec fn fx_acos(x: f32) -> f32;
    pub uninterp spec fn fx_tanh(x: f32) -> f32;
    pub uninterp spec fn fx_sinh(x: f32) -> f32;
    pub uninterp spec fn fx_cosh(x: f32) -> f32;
    pub uninterp spec fn fx_exp_m1(x: f32) -> f32;
    pub uninterp spec fn fx_ln_1p(x: f32) -> f32;
    pub uninterp spec fn fx_cbrt(x: f32) -> f32;
    pub uninterp spec fn fx_log(x: f32, y: f32) -> f32;
    pub uninterp spec fn fx_from_bits(b: u32) -> f32;
    pub uninterp spec fn fx_is_normal(x: f32) -> bool;
    pub uninterp spec fn fx_total_cmp(x: f32, y: f32) -> core::cmp::Ordering;
    pub uninterp spec fn dur_as_secs(d: std::time::Duration) -> u64;
    pub uninterp spec fn dur_as_millis(d: std::time::Duration) -> u128;
    pub uninterp spec fn dur_as_micros(d: std::time::Duration) -> u128;
    pub uninterp spec fn dur_as_nanos(d: std::time::Duration) -> u128;
    pub uninterp spec fn dur_as_secs_f32(d: std::time::Duration) -> f32;
    pub uninterp spec fn dur_as_secs_f64(d: std::time::Duration) -> f64;
    pub uninterp spec fn dur_subsec_millis(d: std::time::Duration) -> u32;
    pub uninterp spec fn dur_subsec_nanos(d: std::time::Duration) -> u32;
    pub uninterp spec fn usize_is_pow2(x: usize) -> bool;
    pub uninterp spec fn cmp_max_spec<T>(a: T, b: T) -> T;
}

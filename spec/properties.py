"""Which obligations each claimed property reads (DESIGN 4).  A property's check fails when any obligation of a
unit in its scope (selected by unit path or registered instruction NAME) fails, or any clause labelled with the
property id fails, unless it is a listed known finding."""

SCALAR_NAMES = ['BOOLEAN.=', 'BOOLEAN.AND', 'BOOLEAN.OR', 'BOOLEAN.NOT', 'BOOLEAN.FROMFLOAT', 'BOOLEAN.FROMINTEGER', 'BOOLEAN.ID',
                'INTEGER.+', 'INTEGER.-', 'INTEGER.*', 'INTEGER./', 'INTEGER.%', 'INTEGER.<', 'INTEGER.=', 'INTEGER.>', 'INTEGER.ABS',
                'INTEGER.MAX', 'INTEGER.MIN', 'INTEGER.FROMBOOLEAN', 'INTEGER.FROMFLOAT', 'INTEGER.ID',
                'FLOAT.+', 'FLOAT.-', 'FLOAT.*', 'FLOAT./', 'FLOAT.%', 'FLOAT.<', 'FLOAT.=', 'FLOAT.>', 'FLOAT.SIN', 'FLOAT.COS',
                'FLOAT.TAN', 'FLOAT.EXP', 'FLOAT.MAX', 'FLOAT.MIN', 'FLOAT.FROMBOOLEAN', 'FLOAT.FROMINTEGER', 'FLOAT.ID',
                'NAME.=', 'NAME.CAT', 'NAME.ID']

STACK_API = ['path:stack::PushStack::*']
MANIP = ['DUP', 'DDUP', 'POP', 'SWAP', 'ROT', 'YANK', 'YANKDUP', 'SHOVE', 'FLUSH', 'STACKDEPTH']
STACK_TYPES = ['BOOLEAN', 'INTEGER', 'FLOAT', 'NAME', 'CODE', 'EXEC', 'BOOLVECTOR', 'INTVECTOR', 'FLOATVECTOR']
C05_NAMES = ['%s.%s' % (t, m) for t in STACK_TYPES for m in MANIP]
VEC_EXTERNAL_NOTE = ('every registered vector instruction has a verified body; the iterator adapters, sorts and the f32 sum among them are read through the rewrites R9 / R13 / R14, whose assumptions about std are listed')

PROPS = {
    'C16': dict(
        level='proof',
        units=STACK_API,
        explanation='every public method of PushStack<T> (generic T) is verified against the Seq<T> operation it implements; '
                    'operation histories of any length follow by composition of the per-method contracts',
        not_decided=['the text a single item prints as (PushPrint::to_pstring: uninterpreted pstr_of) and what trim() removes; PushStack::to_string itself is under contract: '
                     'the text before trimming is, for each item from the TOP down, a blank and the item\'s printed form (R9a, R11b, R19)'],
        assumptions=['positions passed to replace() are < usize::MAX (the quantifier\'s range is [0, len+2])',
                     'swap(i, j) is the raw slice swap and requires in-range indices (not part of the statement\'s list)'],
    ),
    'C04': dict(
        level='proof',
        units=['name:' + n for n in SCALAR_NAMES] + ['name:CODE.FROMBOOLEAN', 'name:CODE.FROMFLOAT', 'name:CODE.FROMINTEGER', 'name:CODE.FROMNAME'] + STACK_API,
        explanation='one contract per registered scalar instruction NAME, generated from the instruction table (spec/rows.py); the unit is '
                    '(NAME, function bound to NAME in the registry), so a wrong registry binding fails the NAME\'s contract',
        not_decided=['values of sin/cos/tan/exp (libm) are uninterpreted functions: only which function is applied to which operand is proved',
                     'IEEE order facts (FLOAT.MAX/MIN pick the larger/smaller operand; NaN handling): decided by the loop-free Kani harnesses of the thorough tier'],
        thorough=True,
    ),
    'C05': dict(
        level='proof',
        units=['name:' + n for n in C05_NAMES] + STACK_API,
        explanation='one spec per operation (yank_seq, shove_seq, clamp_idx with position 0 = top), instantiated for the nine stacks from one template; '
                    'each result is a permutation / +1 copy / removal by construction of the spec; any of the hand-written copies that deviates fails its own unit',
    ),
    'C07': dict(
        level='proof',
        units=['nameglob:*.DEFINE', 'name:NAME.QUOTE', 'name:CODE.DEFINITION', 'path:interpreter::PushInterpreter::step'] + STACK_API,
        explanation='DEFINE binds name -> literal of the stack\'s type (map insert: a later definition replaces an earlier one); the identifier arm of step: quoted -> NAME stack and '
                    'flag cleared, bound -> the bound value is scheduled, unbound -> NAME stack; CODE.DEFINITION returns the bound value',
        assumptions=['A-hash: String keys hash/compare consistently; &str lookups find the String with the same characters'],
    ),
    'C02': dict(
        level='proof',
        units=['path:interpreter::PushInterpreter::*', 'path:state::PushState::size'],
        explanation='step: returns true iff EXEC was empty and then changes nothing; run: NoErrors only with EXEC empty, at most eval_push_limit+1 steps started '
                    '(loop invariant) and StepLimitExceeded exactly when that many were executed, termination by decreases limit+1-step_counter, configuration never changed; '
                    'time limit: TimeLimitExceeded is returned only after a clock reading d with d > Duration::from_millis(eval_time_limit) (or d.as_millis() > eval_time_limit: whole-millisecond granularity is accepted), and every step is preceded, in its own iteration, by a clock reading that did not exceed it '
                    '(assertions anchored at the return and before the call of step; the clock readings themselves are arbitrary values)',
        not_decided=['that wall-clock time is bounded (liveness under an arbitrary clock): Instant::elapsed() returns an arbitrary Duration in the contract -- what is decided is that the clock is consulted before every step and compared with the limit in milliseconds',
                     '"the state left behind equals k manual steps": run changes the state only through copy_to_code_stack and step (both under contract); '
                     'every other call in its body takes &self or locals -- guaranteed by the borrow checker on the extracted text, not a separate obligation'],
        assumptions=['eval_push_limit in [-1, i32::MAX), growth_cap <= 2^31-1 (machine ranges from the quantifier)',
                     'A-dispatch: an executed closure is one of the registered instruction functions (each verified panic-free under the envelope, configuration outside its footprint)',
                     'ENVELOPE premise: two assume(envelope(state)) in run\'s loop -- C01\'s stated resource envelope holds along the run'],
    ),
    'C03': dict(
        level='proof',
        units=['path:parser::PushParser::parse_program', 'path:parser::parse_program__token', 'path:parser::PushParser::parse_vector', 'path:parser::PushParser::rec_push', 'path:instructions::InstructionSet::is_instruction',
               'path:stack::PushStack::push_front', 'path:stack::PushStack::bottom_mut', 'path:stack::PushStack::push'],
        explanation='for EVERY input string: parse_program / parse_vector / rec_push never panic (the depth counter cannot underflow or overflow, the three `token[k..]` slices are taken only after '
                    '`starts_with` of an ASCII prefix of k bytes, rec_push recurses on a strictly smaller depth), terminate, and change nothing but the EXEC stack (only_exec_changed); rec_push puts the item at the FRONT of the list that is open at the given depth '
                    '(relation rec_pushed: so tokens keep their left-to-right order and nesting) and fails exactly when no list is open at that depth. '
                    'PER TOKEN (the body of the token loop, outlined mechanically by R16 into parse_program__token): spec function token_effect, written from the property statement -- '
                    'a token with prefix INT[ / FLOAT[ / BOOL[ is a vector literal: without the closing bracket, or with an element that is not of the type, the EXEC stack is unchanged (dropped, neighbours undisturbed), '
                    'otherwise the vector whose i-th element is the value of the i-th comma-separated piece is front-pushed at the open list; "(" pushes an empty list there and opens it (depth+1); ")" closes it (depth-1, ignored at depth 0); '
                    'any other token becomes exactly one item, classified in the documented order registered instruction / integer / float / TRUE / FALSE / name, front-pushed at the open list, depth unchanged. '
                    'WHOLE INPUT: parse_program ensures tokens_effect(str_words(code), EXEC before, 0, EXEC after, d): the per-token effects applied to the words of the input in their order, starting at depth 0 (loop invariant over the words already consumed; no token is skipped, repeated or reordered). '
                    'TREE (lemma over these contracts, induction over token trees): theorem_balanced_program_builds_its_tree -- for every forest f of trees (word | parenthesised group) whose words are not parentheses '
                    'and whose vector literals are well formed, tokens_effect(render_all(f), a, 0, b, d) implies d == 0 and b == new + a with forest_match(f, new): same nesting, same order with the first token on top, every word classified. '
                    'The str operations are read through the R15 wrappers (bodies = the original expressions): starts_with is the prefix relation, `&s[k..]` drops k characters after an ASCII prefix, strip_suffix removes the suffix; '
                    'what split_whitespace yields, what split(",") yields and what parses as i32 / f32 are uninterpreted functions of the characters',
        not_decided=['the last link of parse(render(t)) == t: that split_whitespace applied to the TEXT of a rendered program yields the token sequence render_all(t) '
                     '(which substrings are the words: no installed verifier can reason about str contents; Kani on parse_program with 3 symbolic bytes did not finish in 10 minutes). '
                     'Decided is everything from the word sequence on: per-token step, the fold over all words, and the theorem that a balanced forest of words builds exactly its tree',
                     'which strings std parses as i32 / f32 (uninterpreted)'],
        assumptions=['R15 (std documentation of the str methods, assumed as wrapper contracts): `s.starts_with(p)` is the prefix relation and, for an ASCII literal p, byte offset |p| is character offset |p| (so `&s[|p|..]` cannot panic and drops |p| characters); '
                     '`strip_suffix(p)` removes the suffix p if present; `split(p)` and `parse` are pure functions of the characters; a string in memory has fewer than 2^64 whitespace-separated tokens; '
                     'SplitWhitespace::next consumes at least one token when it returns one (termination measure sw_remaining); `s.split(p)` is read as its collected pieces',
                     'R16: the body of the token loop is verified as a function of its own (moved verbatim; `continue` -> `return`, the captured counter `depth` passed by `&mut`); tools/selftest_rewrites.sh runs the repository tests on the outlined text',
                     'A-hash: looking a String-keyed map up with a &str (InstructionSet::is_instruction) is the vstd borrowed-key relation; A-string-ext: two &str with the same characters are the same value'],
    ),
    'C17': dict(
        level='proof',
        units=['path:buffer::PushBuffer::*', 'path:buffer::PushBufferIterator::*', 'nameglob:INPUT.*', 'nameglob:OUTPUT.*'],
        explanation='PushBuffer<T>: representation invariant wf() and abstract view live() (oldest first); push/push_force/pop/flush/get/get_mut/copy/peek/iter/next verified against the bounded-sequence operations for both kinds; '
                    'INPUT.*/OUTPUT.* rows on top of it',
        not_decided=['the text a single item prints as (Display: uninterpreted str_of) and what trim() removes; PushBuffer::to_string itself is under contract: for a well-formed buffer it never indexes outside the container and '
                     'the text before trimming is, for each LIVE item from the newest to the oldest, a blank and its Display form (R19) -- so the slot-order defect repaired earlier is now excluded by a contract',
                     'size_hint() of the iterator (not part of the statement)'],
        assumptions=['capacity in 1..2^30 (index arithmetic goes through i32)'],
    ),
    'C09': dict(
        level='proof',
        units=['nameglob:BOOLVECTOR.*', 'nameglob:INTVECTOR.*', 'nameglob:FLOATVECTOR.*', 'path:vector::BoolVector::*', 'path:vector::IntVector::*', 'path:vector::FloatVector::*'] + STACK_API,
        label_re=r'^C(09|05|07|06|13|10)',
        explanation='element-wise operations verified (loop invariant) against overlay(second, top, offset, op) of the README; GET/SET clamp; ONES/ZEROS/LENGTH/APPEND/EMPTY/FROMINT/EQUAL/ROTATE/CONTAINS/SET*INSERT/NOT rows; '
                    'through the R9 desugaring of slice-iterator adapters: BOOLVECTOR.COUNT = number of TRUE elements, INTVECTOR.SUM = the wrapping sum, INTVECTOR.MEAN = that sum / length (f32), '
                    'INTVECTOR.BOOLINDEX = the ascending indices of the TRUE elements, FLOATVECTOR.*SCALAR = element-wise product, INTVECTOR.REMOVE = the other elements in order (Vec::retain), FLOATVECTOR.SUM = the left-to-right f32 sum from std\'s empty sum (R14; cross-checked bit for bit by the bounded Kani harness b_c09_float_vector_sum), FLOATVECTOR.MEAN = that sum / length, INTVECTOR.SORT*ASC / DESC = an ascending / descending permutation (multiset equal) of the top vector (assumed contract of slice::sort + the i32 axiom), BOOLVECTOR / FLOATVECTOR.SORT*ASC / DESC = a permutation ordered by the comparator (R13: the two sort_by call forms are wrappers with assumed contracts; false before true; f32: the uninterpreted total preorder of total_cmp), BoolVector::from_int_array (no longer trusted); registry binding is part of each unit; ' + VEC_EXTERNAL_NOTE,
        not_decided=['float element values are uninterpreted (which operation on which elements is proved)',
                     'the real std sort / retain bodies did not finish in CBMC within 400 s even for length <= 2, so the R9 / T-std assumptions about them have no bounded cross-check'],
        thorough=True,
    ),
    'C06': dict(
        level='proof',
        units=['name:EXEC.IF', 'name:EXEC.K', 'name:EXEC.S', 'name:EXEC.Y', 'name:EXEC.DUP', 'name:EXEC.LOOP', 'name:CODE.LOOP', 'name:CODE.IF', 'name:CODE.DO',
               'name:CODE.DO*', 'name:CODE.QUOTE', 'name:INTVECTOR.LOOP', 'nameglob:INDEX.*', 'path:interpreter::PushInterpreter::step'] + STACK_API,
        explanation='single steps: each combinator\'s new EXEC/CODE/INDEX stacks equal the documented rearrangement; list execution pushes the elements so that the first is on top; '
                    'the one-round consistency of the loop unfoldings: the code EXEC.LOOP re-arms with hands the body back to EXEC.LOOP (by construction of the list), and the code CODE.LOOP re-arms with must bring the body back to the CODE stack '
                    'before CODE.LOOP runs again (clause fired.rearm.next-round-finds-its-body: fails on the pinned tree -> known finding, confirmed natively)',
        not_decided=['whole-loop iteration counts (EXEC.LOOP / CODE.LOOP / INTVECTOR.LOOP run the body exactly n times): a multi-step property over the proved step transformers; not built',
                     'nested loops and bodies that themselves touch INDEX / EXEC / CODE: follow only under a stated hypothesis on the body'],
    ),
    'C10': dict(
        level='proof',
        units=['nameglob:*'],
        classes=['post'],
        label_re=r'unfired|frame|fired\.shape|operands|wf\.buffers|only-pops|no-ids',
        all_labels_in_scope=True,
        explanation='the unfired.*, frame.*, fired.shape.* and operand clauses of every instruction row: nothing is pushed when an operand or guard is missing, operand stacks lose at most the row\'s operands, '
                    'and every state component outside the row\'s footprint is unchanged',
        not_decided=['instructions whose bodies are external (listed under out_of_reach) carry no checked Verus contract; the thorough tier checks with Kani that they leave the empty state untouched'],
        thorough=True,
    ),
    'C01': dict(
        level='proof',
        units=['all'],
        classes=['safety', 'termination', 'invariant', 'assert'],
        label_re=r'^$',
        explanation='every function of the crate that Verus can translate is checked panic-free (no overflow, division by zero, out-of-bounds index, failed unwrap/expect, '
                    'violated std precondition) for all inputs under the resource envelope, and terminating; step() dispatches only to registered instruction functions (A-dispatch), '
                    'so the per-function results compose to "single-stepping never panics"; run() adds its own loop',
        not_decided=['bodies under external_body (listed in out_of_reach): printing (core::fmt), rand internals, EXEC.CMD (Command::spawn().expect -- the property assumes a harmless target), '
                     'the parser (C03), Graph::remove_node / diff, the BOOL/FLOAT sorts and FLOATVECTOR.SUM/MEAN (closures / f32 sum)',
                     'host stack overflow from recursion on deeply nested items, allocation failure: outside the envelope (C15)',
                     'termination of the rejection-sampling loop in random_bool_vector is probabilistic (exec_allows_no_decreases_clause)'],
        assumptions=['ENVELOPE: every stack, vector, record and code item is smaller than 2^31-1 (C01\'s stated resource envelope); ring-buffer capacities in 1..2^30',
                     'float lemma L1 (assume in random_bool_vector) and L2 (axiom on Normal::new): discharged bit-precisely by Kani in the thorough tier',
                     'float fact L3 (assume in find_neighbors: edge length >= 1): unchecked (powf)'],
        thorough=True,
    ),
    'C08': dict(
        level='proof',
        units=['path:item::Item::*', 'path:item::PushType::*', 'nameglob:CODE.*', 'path:stack::PushStack::*'],
        label_re=r'^C(08|04|05|07|10|12)',   # (C06-only clauses of CODE.DO / IF / LOOP / QUOTE are read by C06)
        all_labels_in_scope=True,
        thorough=True,
        explanation='Item::size == points, Item::traverse == nth_point (depth first, top first), Item::equals == deep_eq, Item::contains == first_pos (with the lemma: the point at first_pos is deep-equal to the pattern, '
                    'i.e. POSITION returns an index at which EXTRACT returns the searched item), Item::insert / CODE.INSERT: for every index inside the item, nth_point(result, i) is the inserted item, i.e. a following CODE.EXTRACT at i yields it (index 0 replaces the whole item), and nothing outside the replaced subtree changes (recursive relation ins_ok: on the path to the point the lists keep their lengths, every sibling is structurally the same); CODE.SIZE/EXTRACT/POSITION/CONTAINS/MEMBER/LENGTH/NULL/ATOM/CAR/CDR/CONS/LIST/FROM* rows (CONTAINS / MEMBER: TRUE exactly when some point of the container is deep-equal to the other operand); CODE.DISCREPANCY == discrepancy_of (position-wise mismatches of the printed forms + difference of the lengths for two lists, 0 / 1 otherwise) with the lemmas `discrepancy_of(a, b) == discrepancy_of(b, a)` and `discrepancy_of(a, a) == 0` (the property\'s "symmetric and zero for identical items"); CODE.= pushes whether the printed forms agree; CODE.NTH: index modulo (length + 1), 0 = the whole expression, i > 0 = the i-th element (as the repository\'s test pins it); Item::substitute / CODE.SUBST: every structural (deep-equal) match of the pattern below the root becomes the substitute and nothing else changes (recursive relation subst_ok), a match at the root gives the substitute itself; Item::container / CODE.CONTAINER: the list that directly holds the first depth-first occurrence of the pattern (container_of), an empty list when there is none, with the lemma that this container is a list one of whose own elements matches the pattern',
        not_decided=['CODE.INSERT: a negative or too large index is a no-op '
                     '(pinned by the repository\'s test), not the modulo the documentation of EXTRACT describes: clause fired.extract-after-insert.out-of-range-index, known finding',
                     'CODE.= / EXEC.= / CODE.DISCREPANCY compare PRINTED forms (Display): proved relative to `str_of`, an uninterpreted function of the item (R11); that two different items never print alike is not claimed',
                     'CODE.APPEND: operand handling and footprint only (it builds a two-element list, which is the documented append only for atoms; CODE.APPEND is not among the instructions the property lists)'],
    ),
    'C12': dict(
        level='proof',
        units=['path:random::CodeGenerator::decompose', 'path:random::CodeGenerator::random_code_with_size', 'path:random::CodeGenerator::random_code',
               'path:random::Standard::Distribution::sample', 'name:CODE.RAND', 'path:item::Item::size'],
        explanation='relative to the RNG contract (rand stubs): decompose appends positive parts summing to the request; random_code_with_size(n) has exactly n points for every n >= 1 (with termination); '
                    'random_code(m) is None for m <= 1 and has 1..m-1 points otherwise; CODE.RAND never exceeds |n| nor max-points-in-random-expressions',
        not_decided=['a name leaf is "a currently bound name unless a new one is drawn": existing_random_name is proved to return a bound name, but whether a given leaf came from it or from new_random_name is not observable in a contract',
                     '"executable and printable under C01 and C11" is a cross-reference'],
        assumptions=['R2: rand 0.8 / names contracts as documented (gen_range panics on an empty range and returns a value inside it; Uniform::from(a..b) requires a < b)'],
    ),
    'C13': dict(
        level='proof',
        units=['path:random::CodeGenerator::random_*', 'name:INTEGER.RAND', 'name:FLOAT.RAND', 'name:BOOLEAN.RAND', 'name:BOOLVECTOR.RAND', 'name:INTVECTOR.RAND',
               'name:FLOATVECTOR.RAND', 'name:NAME.RAND', 'name:NAME.RANDBOUNDNAME'],
        explanation='relative to the RNG contract: INTEGER.RAND / FLOAT.RAND values inside [min, max) and nothing when min >= max; random_int_vector length and element range, None for size < 0 or max <= min; '
                    'random_float_vector length, None for a negative size, no unwrap of a failed Normal::new; random_bool_vector: a vector exactly for size >= 0 and 0 <= sparsity <= 1, length = size, and the minority value (TRUE for sparsity <= 0.5) occurs EXACTLY trunc(round(100*min(s,1-s))/100 * size) times (count invariant over the rejection loop; f32 operations uninterpreted, in the order the code applies them), every drawn index inside the vector; '
                    'existing_random_name / NAME.RANDBOUNDNAME return a currently bound name whenever one exists (R9h: keys().cloned().collect() as a loop over the map; A-string-ext); '
                    'BOOLVECTOR/INTVECTOR/FLOATVECTOR.RAND pass their operands in the documented order (size on top; max, min below; mean on top of deviation) and push nothing for invalid parameters',
        not_decided=['"every position able to become TRUE" is a possibility (exists-run) property; its safety shadow -- indices are drawn from the whole range 0..size -- is what the gen_range contract checks',
                     'that the f32 share round(100*min(s,1-s))/100 is the documented rounding of the sparsity: float arithmetic (values uninterpreted)',
                     'termination of the rejection loop (probabilistic)'],
        assumptions=['float lemmas L1, L2 (Kani, thorough tier)'],
        thorough=True,
    ),
    'C18': dict(
        level='proof',
        units=['nameglob:GRAPH.*', 'path:buffer::PushBuffer::*', 'path:graph::Graph::*', 'path:graph::Node::*', 'path:graph::Edge::*'],
        explanation='Graph model (nodes: id -> Node, edges: destination -> incoming edges): wf = every node stored under its id, every edge connects two existing nodes, at most one edge per ordered pair; '
                    'wf is preserved by Graph::new / add_node / add_edge / set_state / set_weight / remove_node / remove_edge (proved) and is part of the state invariant every GRAPH.* row re-establishes; add_edge adds the edge exactly when both nodes exist and not twice; '
                    'get_state / set_state / node_size / get_weight / set_weight against the map model (weight_of = weight of the first incoming edge of the destination that starts at the origin; set_weight changes that edge only and keeps wf -- no longer a trusted contract; remove_node (R9j: the iter_mut loop as a loop over the collected keys) removes the node, its incoming list and from every other list the edge that starts at it, nothing else, and keeps wf; remove_edge leaves exactly the incoming edges of the destination that do not start at the origin and keeps wf -- so EVERY mutator of the Graph API preserves wf, and the invariant holds after any sequence of operations; GRAPH.EDGE*GETWEIGHT / SETWEIGHT rows with values; the queries against the model: GRAPH.NODE*PREDECESSORS = exactly the origins of the node\'s incoming edges whose node exists in an admitted state, in edge-list order; GRAPH.NODE*SUCCESSORS / Graph::filter / GRAPH.NODES / NODES*HISTORY (HashMap order is unspecified, so as sets): only admitted successors / nodes, and every one of them; GRAPH.NODE*NEIGHBORS = the predecessors followed by the successors; NODES*HISTORY / NODE*HISTORY / EDGE*HISTORY read the snapshot at the requested depth (EDGE*HISTORY ignored depth 0: repaired; its println! is dropped by R12); GRAPH.NODE*ADD / GETSTATE / SETSTATE / HISTORY / EDGE*ADD rows with values; the graph stack keeps its depth and only the newest graph may change '
                    '(older snapshots untouched); DUP pushes a structural copy; Edge::diff / Node::diff return None exactly for equal origin+weight / id+state',
        not_decided=['Graph::diff / edge_size (nested HashMap iteration with a `find` closure, string building): bodies external; of "the textual diff is empty exactly when two snapshots are the same" '
                     'only the two leaf comparisons are decided: Edge::diff is None exactly for equal origin and weight, Node::diff exactly for equal id and state',
                     'operands that are negative INTEGERs reach the graph as `as usize` casts, which Verus leaves unspecified: the EDGE*GETWEIGHT / SETWEIGHT value clauses are stated for non-negative ids (seed C18-7 is missed for that reason)',
                     ],
    ),
    'C19': dict(
        level='proof',
        units=['path:list::*', 'nameglob:LIST.*', 'path:item::Item::find'],
        label_re=r'^C(19|10|15)',
        all_labels_in_scope=True,
        explanation='LIST.REMOVE/GET/BVAL/IVAL/FVAL rows with clamped record address; Item::find == nth_kind (n-th point of the requested kind, depth first from the top), bval/ival/fval return it or the type default; '
                    'load_items collects EXACTLY the designated items in id-vector order (recursive spec `collect`: one pop from the stack each id names, ids naming an empty or unknown stack are skipped), only pops, at most one item per id; '
                    'LIST.ADD pushes that record, LIST.SET replaces the record at the clamped address (taken before the items are collected) with it and changes no other CODE item',
        not_decided=[                     'LIST.GET followed by execution restores the items: follows from LIST.GET\'s row and step\'s list/literal arms (C06), not proved as one lemma'],
    ),
    'C20': dict(
        level='proof',
        units=['path:topology::Topology::*', 'nameglob:LIST.NEIGHBOR*'],
        explanation='decompose_index: digits below the edge length, panic-free for an edge length >= 1; euclidean_distance == sqrt of the accumulated squared differences (f32 operations uninterpreted), None on a length mismatch; '
                    'decompose_index returns exactly the mixed-radix digits index / nedge^k % nedge (None exactly when a power overflows), with the lemmas: recombining the digits gives index mod nedge^ndim (an index inside the hypercube is recovered exactly), '
                    'and two indices inside the hypercube with the same coordinates are equal (injectivity); '
                    'find_neighbors: Some exactly for valid parameters without power overflow, every returned index in 0..ntotal, strictly ascending (hence no repeats), and the result is EXACTLY the ascending sequence of the indices i in 0..ntotal with '
                    'sqrt(sum_k (centre_k - i_k)^2) <= radius over the digit vectors in the hypercube of edge ceil(ntotal^(1/ndim)) (f32 operations uninterpreted, in the order the code applies them), panic-free, terminating (R7: `usize as f32` / `f32 as usize` go through wrapper functions whose bodies are the casts); LIST.NEIGHBOR*IDS pushes exactly find_neighbors(max(size,0), clamp(dims,0,size), clamp(index,0,size-1), max(radius,0)); *BVALS/IVALS/FVALS push the addressed value of the record at each neighbour CODE position (neighbours beyond the CODE stack skipped); nothing is pushed for an invalid topology',
        not_decided=['contains-the-centre, symmetry, monotonicity in the radius: need IEEE facts about sqrt/powf/<= (x-x = 0, powf(0,2) = 0, transitivity ...) that are uninterpreted in Verus and over-approximated by CBMC; "smallest enclosing hypercube" is the value of ceil(powf(..)), uninterpreted',
                     '*VALS with a negative position operand (`as usize` of a negative i32): only shapes',
                     'surjectivity of the decomposition (every digit vector below the edge length is the image of an index) is not stated as a lemma; injectivity and exact recovery are (below)'],
        assumptions=['float fact L3 (assume in find_neighbors, NOT checked by any installed tool): for ntotal >= 1, ndim >= 1 the edge length ceil(ntotal^(1/ndim)) is >= 1',
                     'float fact L4 (axiom ax_f32_constants) and the assumed contract of f32::clamp: checked by the Kani harness l4_f32_constants in the thorough tier (not used on the current tree; they keep refactors that use the constants decidable)'],
        thorough=True,
    ),
    'C15': dict(
        level='proof',
        units=['nameglob:*VECTOR.*', 'nameglob:LIST.NEIGHBOR*', 'path:list::load_items', 'name:CODE.LIST', 'name:CODE.APPEND', 'name:CODE.CONS', 'name:CODE.INSERT', 'name:CODE.SUBST', 'name:EXEC.S', 'name:EXEC.Y'],
        classes=['post'],
        label_re=r'bound\.alloc|bound\.points|at-most-one-item-per-id',
        explanation='the expressible part of C15: every vector a step creates is no longer than the vector operands it consumed plus the number of scalar operands plus one '
                    '(bound.alloc clauses: element-wise operations, NOT, APPEND, SET*INSERT, FROMINT, load_items) -- i.e. allocation is bounded by the state, not by operand magnitude; '
                    'ONES / ZEROS / RAND / SINE / LIST.NEIGHBOR*IDS vectors are sized by an INTEGER operand by design: one known finding each; bound.points clauses: an instruction that builds a CODE/EXEC item (CODE.LIST/APPEND/CONS/INSERT/SUBST, EXEC.S/Y) must not create one above max_points_in_program unless it is no bigger than an operand -- the limit is consulted nowhere: one known finding each (growth to 2047 points measured natively)',
        not_decided=['peak RSS, wall-clock time and host stack depth of a step: not expressible as a contract',
                     'LIST.ADD / LIST.SET records and the loop re-arm lists also build items without a points check; no bound.points clause is stated for them',
                     'LIST.NEIGHBOR*BVALS/IVALS/FVALS: the pushed vector is proved no longer than the CODE stack is deep, but the neighbourhood they compute on the way (find_neighbors) is as large as the size operand, like NEIGHBOR*IDS (known finding)'],
    ),
}

"""Which obligations each claimed property reads (DESIGN 4).  A property's check fails when any obligation of a
unit in its scope (selected by unit path or registered instruction NAME) fails, or any clause labelled with the
property id fails, unless it is a listed known finding."""

SCALAR_NAMES = ['BOOLEAN.=', 'BOOLEAN.AND', 'BOOLEAN.OR', 'BOOLEAN.NOT', 'BOOLEAN.FROMFLOAT', 'BOOLEAN.FROMINTEGER', 'BOOLEAN.ID',
                'INTEGER.+', 'INTEGER.-', 'INTEGER.*', 'INTEGER./', 'INTEGER.%', 'INTEGER.<', 'INTEGER.=', 'INTEGER.>', 'INTEGER.ABS',
                'INTEGER.MAX', 'INTEGER.MIN', 'INTEGER.FROMBOOLEAN', 'INTEGER.FROMFLOAT', 'INTEGER.ID',
                'FLOAT.+', 'FLOAT.-', 'FLOAT.*', 'FLOAT./', 'FLOAT.%', 'FLOAT.<', 'FLOAT.=', 'FLOAT.>', 'FLOAT.SIN', 'FLOAT.COS',
                'FLOAT.TAN', 'FLOAT.EXP', 'FLOAT.MAX', 'FLOAT.MIN', 'FLOAT.FROMBOOLEAN', 'FLOAT.FROMINTEGER', 'FLOAT.ID',
                'NAME.=', 'NAME.CAT', 'NAME.ID']

STACK_API = ['path:stack::PushStack::*']
MANIP = ['DUP', 'DDUP', 'POP', 'SWAP', 'ROT', 'YANK', 'YANKDUP', 'SHOVE', 'FLUSH', 'STACKDEPTH']
STACK_TYPES = ['BOOLEAN', 'INTEGER', 'FLOAT', 'NAME', 'CODE', 'EXEC', 'BOOLVECTOR', 'INTVECTOR', 'FLOATVECTOR']
C05_NAMES = ['%s.%s' % (t, m) for t in STACK_TYPES for m in MANIP]
VEC_EXTERNAL_NOTE = ('COUNT, SUM, MEAN, SORT*ASC/DESC, REMOVE, BOOLINDEX, *SCALAR and SINE use iterator adapters / closures / `usize as f32` that Verus '
                     'cannot translate: their bodies are external (listed under out_of_reach); bounded Kani stand-ins are listed under bounded_stand_ins when run')

PROPS = {
    'C16': dict(
        level='proof',
        units=STACK_API,
        explanation='every public method of PushStack<T> (generic T) is verified against the Seq<T> operation it implements; '
                    'operation histories of any length follow by composition of the per-method contracts',
        not_decided=['PushStack::to_string (printing lists the items top first): iter().rev().enumerate() and format! are outside Verus'],
        assumptions=['positions passed to replace() are < usize::MAX (the quantifier\'s range is [0, len+2])',
                     'swap(i, j) is the raw slice swap and requires in-range indices (not part of the statement\'s list)'],
    ),
    'C04': dict(
        level='proof',
        units=['name:' + n for n in SCALAR_NAMES] + ['name:CODE.FROMBOOLEAN', 'name:CODE.FROMFLOAT', 'name:CODE.FROMINTEGER', 'name:CODE.FROMNAME'] + STACK_API,
        explanation='one contract per registered scalar instruction NAME, generated from the instruction table (spec/rows.py); the unit is '
                    '(NAME, function bound to NAME in the registry), so a wrong registry binding fails the NAME\'s contract',
        not_decided=['values of sin/cos/tan/exp (libm) are uninterpreted functions: only which function is applied to which operand is proved',
                     'IEEE order facts (FLOAT.MAX/MIN pick the larger/smaller operand; NaN handling): decided by the loop-free Kani harnesses of the thorough tier'],
        thorough=True,
    ),
    'C05': dict(
        level='proof',
        units=['name:' + n for n in C05_NAMES] + STACK_API,
        explanation='one spec per operation (yank_seq, shove_seq, clamp_idx with position 0 = top), instantiated for the nine stacks from one template; '
                    'each result is a permutation / +1 copy / removal by construction of the spec; any of the hand-written copies that deviates fails its own unit',
    ),
    'C07': dict(
        level='proof',
        units=['nameglob:*.DEFINE', 'name:NAME.QUOTE', 'name:CODE.DEFINITION', 'path:interpreter::PushInterpreter::step'] + STACK_API,
        explanation='DEFINE binds name -> literal of the stack\'s type (map insert: a later definition replaces an earlier one); the identifier arm of step: quoted -> NAME stack and '
                    'flag cleared, bound -> the bound value is scheduled, unbound -> NAME stack; CODE.DEFINITION returns the bound value',
        assumptions=['A-hash: String keys hash/compare consistently; &str lookups find the String with the same characters'],
    ),
    'C02': dict(
        level='proof',
        units=['path:interpreter::PushInterpreter::*', 'path:state::PushState::size'],
        explanation='step: returns true iff EXEC was empty and then changes nothing; run: NoErrors only with EXEC empty, at most eval_push_limit+1 steps started '
                    '(loop invariant) and StepLimitExceeded exactly when that many were executed, termination by decreases limit+1-step_counter, configuration never changed',
        not_decided=['that wall-clock time is bounded (liveness under an arbitrary clock): Instant::elapsed() returns an arbitrary Duration in the contract',
                     '"the state left behind equals k manual steps": run changes the state only through copy_to_code_stack and step (both under contract); '
                     'every other call in its body takes &self or locals -- guaranteed by the borrow checker on the extracted text, not a separate obligation'],
        assumptions=['eval_push_limit in [-1, i32::MAX), growth_cap <= 2^31-1 (machine ranges from the quantifier)',
                     'A-dispatch: an executed closure is one of the registered instruction functions (each verified panic-free under the envelope, configuration outside its footprint)',
                     'ENVELOPE premise: two assume(envelope(state)) in run\'s loop -- C01\'s stated resource envelope holds along the run'],
    ),
    'C17': dict(
        level='proof',
        units=['path:buffer::PushBuffer::*', 'path:buffer::PushBufferIterator::*', 'nameglob:INPUT.*', 'nameglob:OUTPUT.*'],
        explanation='PushBuffer<T>: representation invariant wf() and abstract view live() (oldest first); push/push_force/pop/flush/get/get_mut/copy/peek/iter/next verified against the bounded-sequence operations for both kinds; '
                    'INPUT.*/OUTPUT.* rows on top of it',
        not_decided=['printing (to_string uses format!/trim): outside Verus; the known slot-order defect of PushBuffer::to_string is therefore not decided here',
                     'size_hint() of the iterator (not part of the statement)'],
        assumptions=['capacity in 1..2^30 (index arithmetic goes through i32)'],
    ),
    'C09': dict(
        level='proof',
        units=['nameglob:BOOLVECTOR.*', 'nameglob:INTVECTOR.*', 'nameglob:FLOATVECTOR.*'] + STACK_API,
        label_re=r'^C(09|05|07|06|13|10)',
        explanation='element-wise operations verified (loop invariant) against overlay(second, top, offset, op) of the README; GET/SET clamp; ONES/ZEROS/LENGTH/APPEND/EMPTY/FROMINT/EQUAL/ROTATE/CONTAINS/SET*INSERT/NOT rows; '
                    'registry binding is part of each unit',
        not_decided=[VEC_EXTERNAL_NOTE, 'float element values are uninterpreted (which operation on which elements is proved)'],
    ),
    'C06': dict(
        level='proof',
        units=['name:EXEC.IF', 'name:EXEC.K', 'name:EXEC.S', 'name:EXEC.Y', 'name:EXEC.DUP', 'name:EXEC.LOOP', 'name:CODE.LOOP', 'name:CODE.IF', 'name:CODE.DO',
               'name:CODE.DO*', 'name:CODE.QUOTE', 'name:INTVECTOR.LOOP', 'nameglob:INDEX.*', 'path:interpreter::PushInterpreter::step'] + STACK_API,
        explanation='single steps: each combinator\'s new EXEC/CODE/INDEX stacks equal the documented rearrangement; list execution pushes the elements so that the first is on top',
        not_decided=['whole-loop iteration counts (EXEC.LOOP / CODE.LOOP / INTVECTOR.LOOP run the body exactly n times): a multi-step property over the proved step transformers; not built',
                     'CODE.LOOP re-arms with ( INDEX.INCREASE CODE.LOOP body ) but takes its body from the CODE stack: confirmed natively to run the body twice for destination 3 and leave 1/3 on INDEX '
                     '(input `( 3 INDEX.DEFINE CODE.QUOTE ( 7 ) CODE.LOOP )`); only the multi-step lemma would expose it; the re-arm list is pinned by unit test code_loop_pushes_body_and_updated_loop'],
    ),
    'C10': dict(
        level='proof',
        units=['nameglob:*'],
        classes=['post'],
        label_re=r'unfired|frame|fired\.shape|operands|wf\.buffers|only-pops|no-ids',
        all_labels_in_scope=True,
        explanation='the unfired.*, frame.*, fired.shape.* and operand clauses of every instruction row: nothing is pushed when an operand or guard is missing, operand stacks lose at most the row\'s operands, '
                    'and every state component outside the row\'s footprint is unchanged',
        not_decided=['instructions whose bodies are external (listed under out_of_reach) carry no checked contract'],
    ),
}

"""Which obligations each claimed property reads (DESIGN 4).  A property's check fails when any obligation of a
unit in its scope (selected by unit path or registered instruction NAME) fails, or any clause labelled with the
property id fails, unless it is a listed known finding."""

SCALAR_NAMES = ['BOOLEAN.=', 'BOOLEAN.AND', 'BOOLEAN.OR', 'BOOLEAN.NOT', 'BOOLEAN.FROMFLOAT', 'BOOLEAN.FROMINTEGER', 'BOOLEAN.ID',
                'INTEGER.+', 'INTEGER.-', 'INTEGER.*', 'INTEGER./', 'INTEGER.%', 'INTEGER.<', 'INTEGER.=', 'INTEGER.>', 'INTEGER.ABS',
                'INTEGER.MAX', 'INTEGER.MIN', 'INTEGER.FROMBOOLEAN', 'INTEGER.FROMFLOAT', 'INTEGER.ID',
                'FLOAT.+', 'FLOAT.-', 'FLOAT.*', 'FLOAT./', 'FLOAT.%', 'FLOAT.<', 'FLOAT.=', 'FLOAT.>', 'FLOAT.SIN', 'FLOAT.COS',
                'FLOAT.TAN', 'FLOAT.EXP', 'FLOAT.MAX', 'FLOAT.MIN', 'FLOAT.FROMBOOLEAN', 'FLOAT.FROMINTEGER', 'FLOAT.ID',
                'NAME.=', 'NAME.CAT', 'NAME.ID']

PROPS = {
    'C16': dict(
        level='proof',
        units=['path:stack::PushStack::*'],
        explanation='every public method of PushStack<T> (generic T) is verified against the Seq<T> operation it implements; '
                    'operation histories of any length follow by composition of the per-method contracts',
        not_decided=['PushStack::to_string (printing lists the items top first): iter().rev().enumerate() and format! are outside Verus; see bounded stand-in'],
        assumptions=['positions passed to replace() are < usize::MAX (the quantifier\'s range is [0, len+2])',
                     'swap(i, j) is the raw slice swap and requires in-range indices (not part of the statement\'s list)'],
    ),
    'C04': dict(
        level='proof',
        units=['name:' + n for n in SCALAR_NAMES] + ['path:stack::PushStack::pop', 'path:stack::PushStack::pop_vec',
                                                      'path:stack::PushStack::push', 'path:stack::PushStack::copy_vec'],
        explanation='one contract per registered scalar instruction NAME, generated from the instruction table (spec/rows.py); the unit is '
                    '(NAME, function bound to NAME in the registry), so a wrong registry binding fails the NAME\'s contract',
        not_decided=['values of sin/cos/tan/exp (libm) are uninterpreted functions: only which function is applied to which operand is proved',
                     'IEEE order facts (FLOAT.MAX/MIN pick the larger/smaller operand; NaN handling): decided by the loop-free Kani harnesses of the thorough tier'],
        assumptions=[],
    ),
}

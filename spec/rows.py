"""The instruction table (DESIGN 3.1): one Row per registered instruction NAME.

Right-hand sides come from the property statements, the `///` doc comment of the instruction and
the README -- not from the function bodies.  Expressions are Verus spec expressions over
S0.<stack> (state before) and S1.<stack> (state after); stacks are sequences, bottom first;
top(s, i) is the item at position i from the top.
"""
import os, sys
sys.path.insert(0, os.path.join(os.path.dirname(os.path.abspath(__file__)), '..', 'tools'))
from gen import Row

ROWS = {}


def row(name, props, **kw):
    assert name not in ROWS, name
    ROWS[name] = Row(name, props, **kw)


A = lambda s: 'top(S0.%s, 1)' % s     # second item = left operand
B = lambda s: 'top(S0.%s, 0)' % s     # top item    = right operand
X = lambda s: 'top(S0.%s, 0)' % s

# ------------------------------------------------------------------ C04: INTEGER
ai, bi = A('int'), B('int')
row('INTEGER.+', ['C04'], takes=[('int', 2)], pushes=[('int', '%s + %s' % (ai, bi), 'in_i32(%s + %s)' % (ai, bi))])
row('INTEGER.-', ['C04'], takes=[('int', 2)], pushes=[('int', '%s - %s' % (ai, bi), 'in_i32(%s - %s)' % (ai, bi))])
row('INTEGER.*', ['C04'], takes=[('int', 2)], pushes=[('int', '%s * %s' % (ai, bi), 'in_i32(%s * %s)' % (ai, bi))])
# quotient / remainder as Rust's (and the documentation's "second item divided by the top item") truncated
# division; a zero divisor yields no result.  MIN / -1 is not representable: any in-type value.
row('INTEGER./', ['C04'], takes=[('int', 2)], guard='%s != 0' % bi,
    pushes=[('int', 'trunc_div(%s as int, %s as int)' % (ai, bi), 'in_i32(trunc_div(%s as int, %s as int))' % (ai, bi))])
row('INTEGER.%', ['C04'], takes=[('int', 2)], guard='%s != 0' % bi,
    pushes=[('int', 'trunc_rem(%s as int, %s as int)' % (ai, bi), '!(%s == i32::MIN && %s == -1)' % (ai, bi))])
row('INTEGER.<', ['C04'], takes=[('int', 2)], pushes=[('bool', '%s < %s' % (ai, bi))])
row('INTEGER.=', ['C04'], takes=[('int', 2)], pushes=[('bool', '%s == %s' % (ai, bi))])
row('INTEGER.>', ['C04'], takes=[('int', 2)], pushes=[('bool', '%s > %s' % (ai, bi))])
row('INTEGER.ABS', ['C04'], takes=[('int', 1)],
    pushes=[('int', 'if %s < 0 { -(%s as int) } else { %s as int }' % (bi, bi, bi), '%s != i32::MIN' % bi)])
row('INTEGER.MAX', ['C04'], takes=[('int', 2)], pushes=[('int', 'if %s >= %s { %s } else { %s }' % (ai, bi, ai, bi))])
row('INTEGER.MIN', ['C04'], takes=[('int', 2)], pushes=[('int', 'if %s <= %s { %s } else { %s }' % (ai, bi, ai, bi))])
row('INTEGER.FROMBOOLEAN', ['C04'], takes=[('bool', 1)], pushes=[('int', 'if %s { 1i32 } else { 0i32 }' % X('bool'))])
# truncation; out of range or NaN: any in-type value (Rust's saturating cast), shapes as documented
row('INTEGER.FROMFLOAT', ['C04'], takes=[('float', 1)], pushes=[('int', 'f32_to_i32_spec(%s)' % X('float'))])
row('INTEGER.ID', ['C04'], pushes=[('int', '9i32')])

# ------------------------------------------------------------------ C04: BOOLEAN
ab, bb = A('bool'), B('bool')
row('BOOLEAN.=', ['C04'], takes=[('bool', 2)], pushes=[('bool', '%s == %s' % (ab, bb))])
row('BOOLEAN.AND', ['C04'], takes=[('bool', 2)], pushes=[('bool', '%s && %s' % (ab, bb))])
row('BOOLEAN.OR', ['C04'], takes=[('bool', 2)], pushes=[('bool', '%s || %s' % (ab, bb))])
row('BOOLEAN.NOT', ['C04'], takes=[('bool', 1)], pushes=[('bool', '!%s' % bb)])
row('BOOLEAN.ID', ['C04'], pushes=[('int', '1i32')])
# "Pushes FALSE if the top FLOAT is 0.0, or TRUE otherwise" / "... INTEGER is 0 ...".  The doc does not say
# whether the operand is consumed: at most one item may leave the operand stack.
# Both value clauses fail on the pinned tree (known findings: the value is inverted, pinned by the repository's tests).  The `as-recorded` clauses state
# the recorded deviation exactly -- TRUE precisely for zero -- so that any OTHER value these instructions start to compute is still reported.
row('BOOLEAN.FROMFLOAT', ['C04'], fired='(S0.float.len() >= 1)', touches=['float'], pushes=[('bool', '!f32_eq(%s, 0.0f32)' % X('float'))],
    clauses=[('fired.operand.float', 'shrunk(S0.float, S1.float, 1)'),
             ('fired.value.as-recorded-in-known-findings', '(S0.float.len() >= 1) ==> S1.bool[S0.bool.len() as int] == f32_eq(%s, 0.0f32)' % X('float'))])
row('BOOLEAN.FROMINTEGER', ['C04'], fired='(S0.int.len() >= 1)', touches=['int'], pushes=[('bool', '%s != 0' % X('int'))],
    clauses=[('fired.operand.int', 'shrunk(S0.int, S1.int, 1)'),
             ('fired.value.as-recorded-in-known-findings', '(S0.int.len() >= 1) ==> S1.bool[S0.bool.len() as int] == (%s == 0)' % X('int'))])

# ------------------------------------------------------------------ C04: FLOAT
af, bf = A('float'), B('float')
for nm, op in [('FLOAT.+', 'f32_add'), ('FLOAT.-', 'f32_sub'), ('FLOAT.*', 'f32_mul')]:
    row(nm, ['C04'], takes=[('float', 2)], pushes=[('float', '%s(%s, %s)' % (op, af, bf))])
# "If the top item is zero this acts as a NOOP" (zero in the IEEE sense: 0.0 and -0.0)
row('FLOAT./', ['C04'], takes=[('float', 2)], guard='!f32_eq(%s, 0.0f32)' % bf, pushes=[('float', 'f32_div(%s, %s)' % (af, bf))])
row('FLOAT.%', ['C04'], takes=[('float', 2)], guard='!f32_eq(%s, 0.0f32)' % bf, pushes=[('float', 'f32_rem(%s, %s)' % (af, bf))])
row('FLOAT.<', ['C04'], takes=[('float', 2)], pushes=[('bool', 'f32_lt(%s, %s)' % (af, bf))])
row('FLOAT.>', ['C04'], takes=[('float', 2)], pushes=[('bool', 'f32_gt(%s, %s)' % (af, bf))])
row('FLOAT.=', ['C04'], takes=[('float', 2)], pushes=[('bool', 'f32_eq(%s, %s)' % (af, bf))])
for nm, fn in [('FLOAT.SIN', 'f_sin'), ('FLOAT.COS', 'f_cos'), ('FLOAT.TAN', 'f_tan'), ('FLOAT.EXP', 'f_exp')]:
    row(nm, ['C04'], takes=[('float', 1)], pushes=[('float', '%s(%s)' % (fn, bf))])
# the result is one of the two operands, and the other one does not compare greater (less); with a NaN operand
# either operand is acceptable.  Which operand is decided bit-precisely by the Kani harness (thorough tier).
for nm in ['FLOAT.MAX', 'FLOAT.MIN']:
    row(nm, ['C04'], takes=[('float', 2)], pushes=[('float', None)],
        clauses=[('fired.value.float.0', 'S0.float.len() >= 2 ==> (top(S1.float, 0) == %s || top(S1.float, 0) == %s)' % (af, bf))])
row('FLOAT.FROMBOOLEAN', ['C04'], takes=[('bool', 1)], pushes=[('float', 'if %s { 1.0f32 } else { 0.0f32 }' % X('bool'))])
row('FLOAT.FROMINTEGER', ['C04'], takes=[('int', 1)], pushes=[('float', 'i32_to_f32(%s)' % X('int'))])
row('FLOAT.ID', ['C04'], pushes=[('int', '5i32')])

# ------------------------------------------------------------------ C04: NAME
an, bn = A('name'), B('name')
row('NAME.=', ['C04'], takes=[('name', 2)], pushes=[('bool', '%s@ == %s@' % (an, bn))])
# concatenation, the top item appended: the result begins with the second item and ends with the top item
row('NAME.CAT', ['C04'], takes=[('name', 2)], pushes=[('name', None)],
    clauses=[('fired.value.name.0', 'S0.name.len() >= 2 ==> ({ let r = top(S1.name, 0)@; let a = %s@; let b = %s@; '
              'r.len() >= a.len() + b.len() && r.subrange(0, a.len() as int) =~= a && r.subrange(r.len() - b.len(), r.len() as int) =~= b })' % (an, bn))])
row('NAME.ID', ['C04'], pushes=[('int', '11i32')])

# ------------------------------------------------------------------ C05: stack manipulation, one template for all nine stacks
STACKS = {'BOOLEAN': 'bool', 'INTEGER': 'int', 'FLOAT': 'float', 'NAME': 'name', 'CODE': 'code', 'EXEC': 'exec',
          'BOOLVECTOR': 'boolvec', 'INTVECTOR': 'intvec', 'FLOATVECTOR': 'floatvec'}
HAS_ROT = ['BOOLEAN', 'INTEGER', 'FLOAT', 'NAME', 'CODE', 'EXEC']


def exact(stack, expr, cond=None, label='result'):
    """clause: [cond ==>] S1.stack =~= expr"""
    c = 'S1.%s =~= (%s)' % (stack, expr)
    return (label + '.' + stack, ('(%s) ==> (%s)' % (cond, c)) if cond else c)


for T, x in STACKS.items():
    P = ['C05']
    # DUP adds exactly one copy of the top item; nothing happens on an empty stack
    row(T + '.DUP', P, touches=[x], clauses=[
        exact(x, 'S0.%s.push(top(S0.%s, 0))' % (x, x), 'S0.%s.len() >= 1' % x, 'fired'),
        exact(x, 'S0.%s' % x, 'S0.%s.len() == 0' % x, '{C05,C10}unfired')])
    row(T + '.POP', P, touches=[x], clauses=[
        exact(x, 'S0.%s.drop_last()' % x, 'S0.%s.len() >= 1' % x, 'fired'),
        exact(x, 'S0.%s' % x, 'S0.%s.len() == 0' % x, '{C05,C10}unfired')])
    row(T + '.SWAP', P, touches=[x], clauses=[exact(x, 'shove_seq(S0.%s, 1)' % x, None, 'fired')])
    if T in HAS_ROT:
        row(T + '.ROT', P, touches=[x], clauses=[exact(x, 'yank_seq(S0.%s, 2)' % x, None, 'fired')])
    row(T + '.FLUSH', P, touches=[x], clauses=[exact(x, 'Seq::empty()', None, 'fired')])
    if x != 'int':
        idx = 'top(S0.int, 0) as int'
        have = 'S0.int.len() >= 1'
        none = 'S0.int.len() == 0'
        k = 'clamp_idx(%s, S0.%s.len() as int)' % (idx, x)
        row(T + '.YANK', P, touches=[x, 'int'], clauses=[
            exact('int', 'S0.int.drop_last()', have, 'fired'),
            exact(x, 'yank_seq(S0.%s, %s)' % (x, k), have, 'fired'),
            exact('int', 'S0.int', none, '{C05,C10}unfired'), exact(x, 'S0.%s' % x, none, '{C05,C10}unfired')])
        row(T + '.SHOVE', P, touches=[x, 'int'], clauses=[
            exact('int', 'S0.int.drop_last()', have, 'fired'),
            exact(x, 'shove_seq(S0.%s, %s)' % (x, k), have, 'fired'),
            exact('int', 'S0.int', none, '{C05,C10}unfired'), exact(x, 'S0.%s' % x, none, '{C05,C10}unfired')])
        row(T + '.YANKDUP', P, touches=[x, 'int'], clauses=[
            exact('int', 'S0.int.drop_last()', have, 'fired'),
            exact(x, 'S0.%s.push(top(S0.%s, %s))' % (x, x, k), have + ' && S0.%s.len() >= 1' % x, 'fired'),
            exact(x, 'S0.%s' % x, have + ' && S0.%s.len() == 0' % x, 'fired.empty'),
            exact('int', 'S0.int', none, '{C05,C10}unfired'), exact(x, 'S0.%s' % x, none, '{C05,C10}unfired')])
        row(T + '.STACKDEPTH', P, touches=['int'], clauses=[exact('int', 'S0.int.push(S0.%s.len() as i32)' % x, None, 'fired')])
    else:
        # the index is taken from the INTEGER stack first; positions count in what remains
        idx = 'top(S0.int, 0) as int'
        rest = 'S0.int.drop_last()'
        have = 'S0.int.len() >= 1'
        none = 'S0.int.len() == 0'
        k = 'clamp_idx(%s, S0.int.len() - 1)' % idx
        row('INTEGER.YANK', P, touches=['int'], clauses=[
            exact('int', 'yank_seq(%s, %s)' % (rest, k), have, 'fired'), exact('int', 'S0.int', none, '{C05,C10}unfired')])
        row('INTEGER.SHOVE', P, touches=['int'], clauses=[
            exact('int', 'shove_seq(%s, %s)' % (rest, k), have, 'fired'), exact('int', 'S0.int', none, '{C05,C10}unfired')])
        row('INTEGER.YANKDUP', P, touches=['int'], clauses=[
            exact('int', '%s.push(top(%s, %s))' % (rest, rest, k), 'S0.int.len() >= 2', 'fired'),
            exact('int', rest, 'S0.int.len() == 1', 'fired.empty'), exact('int', 'S0.int', none, '{C05,C10}unfired')])
        # "INTEGER.STACKDEPTH counts the value it pushes"
        row('INTEGER.STACKDEPTH', P, touches=['int'], clauses=[exact('int', 'S0.int.push((S0.int.len() + 1) as i32)', None, 'fired')])
row('INTEGER.DDUP', ['C05'], touches=['int'], clauses=[
    exact('int', 'S0.int.push(top(S0.int, 1)).push(top(S0.int, 0))', 'S0.int.len() >= 2', 'fired'),
    exact('int', 'S0.int', 'S0.int.len() < 2', '{C05,C10}unfired')])

# ------------------------------------------------------------------ C07: DEFINE family
LIT = {
    'BOOLEAN': ('bool', 'crate::push::item::Item::Literal { push_type: crate::push::item::PushType::Bool { val: %s } }'),
    'INTEGER': ('int', 'crate::push::item::Item::Literal { push_type: crate::push::item::PushType::Int { val: %s } }'),
    'FLOAT': ('float', 'crate::push::item::Item::Literal { push_type: crate::push::item::PushType::Float { val: %s } }'),
    'BOOLVECTOR': ('boolvec', 'crate::push::item::Item::Literal { push_type: crate::push::item::PushType::BoolVector { val: %s } }'),
    'INTVECTOR': ('intvec', 'crate::push::item::Item::Literal { push_type: crate::push::item::PushType::IntVector { val: %s } }'),
    'FLOATVECTOR': ('floatvec', 'crate::push::item::Item::Literal { push_type: crate::push::item::PushType::FloatVector { val: %s } }'),
    'CODE': ('code', '%s'), 'EXEC': ('exec', '%s'),
}
for T, (x, lit) in LIT.items():
    v = lit % ('top(S0.%s, 0)' % x)
    row(T + '.DEFINE', ['C07'], takes=[('name', 1), (x, 1)], touches=['bindings'], clauses=[
        ('fired.binding', '(S0.name.len() >= 1 && S0.%s.len() >= 1) ==> S1.bindings == S0.bindings.insert(top(S0.name, 0), %s)' % (x, v)),
        ('{C07,C10}unfired.binding', '!(S0.name.len() >= 1 && S0.%s.len() >= 1) ==> S1.bindings == S0.bindings' % x)])
row('NAME.QUOTE', ['C07'], touches=['quote'], clauses=[('fired.flag', 'S1.quote == true')])

# ------------------------------------------------------------------ C17: INPUT / OUTPUT over the ring buffers
def buf_same(b):
    return [('frame.%s.kind' % b, 'S1.%s.cap() == S0.%s.cap() && S1.%s.is_queue() == S0.%s.is_queue()' % (b, b, b, b))]

row('INPUT.AVAILABLE', ['C17'], pushes=[('bool', 'S0.input.n() > 0')])
row('INPUT.STACKDEPTH', ['C17'], pushes=[('int', 'S0.input.n() as i32')])
row('OUTPUT.STACKDEPTH', ['C17'], pushes=[('int', 'S0.output.n() as i32')])
# nth bit of the oldest message, the index clamped into the body
_body = 'S0.input.live()[0].body.values@'
row('INPUT.GET', ['C17'], takes=[('int', 1)], guard='S0.input.n() > 0 && %s.len() > 0' % _body,
    pushes=[('bool', '%s[clamp_idx(top(S0.int, 0) as int, %s.len() as int)]' % (_body, _body))])
row('INPUT.NEXT', ['C17'], touches=['input'], clauses=buf_same('input') + [
    ('fired.input', 'S0.input.n() > 0 ==> S1.input.live() =~= S0.input.live().subrange(1, S0.input.n())'),
    ('{C17,C10}unfired.input', 'S0.input.n() == 0 ==> S1.input.live() =~= S0.input.live()')])
row('INPUT.READ', ['C17'], fired='(S0.input.n() > 0)',
    pushes=[('boolvec', 'S0.input.live()[0].body'), ('intvec', 'S0.input.live()[0].header')])
row('OUTPUT.FLUSH', ['C17'], touches=['output'], clauses=buf_same('output') + [('fired.output', 'S1.output.live() =~= Seq::empty()')])
row('OUTPUT.WRITE', ['C17'], takes=[('boolvec', 1), ('intvec', 1)], touches=['output'], clauses=buf_same('output') + [
    ('fired.output', '(S0.boolvec.len() >= 1 && S0.intvec.len() >= 1 && S0.output.n() < S0.output.cap()) ==> S1.output.live() =~= '
     'S0.output.live().push(crate::push::io::PushMessage { header: top(S0.intvec, 0), body: top(S0.boolvec, 0) })'),
    ('fired.output.full', '(S0.boolvec.len() >= 1 && S0.intvec.len() >= 1 && S0.output.n() == S0.output.cap()) ==> S1.output.live() =~= S0.output.live()'),
    ('{C17,C10}unfired.output', '!(S0.boolvec.len() >= 1 && S0.intvec.len() >= 1) ==> S1.output.live() =~= S0.output.live()')])

# ------------------------------------------------------------------ C06: INDEX stack
_ix = 'top(S0.index, 0)'
row('INDEX.CURRENT', ['C06'], fired='(S0.index.len() >= 1)', pushes=[('int', '%s.current as i32' % _ix)])
# "Pushes the destination field of the top INDEX to the INTEGER stack"
row('INDEX.DESTINATION', ['C06'], fired='(S0.index.len() >= 1)', pushes=[('int', '%s.destination as i32' % _ix)])
row('INDEX.DEFINE', ['C06'], takes=[('int', 1)],
    pushes=[('index', 'crate::push::index::Index { current: 0, destination: (if top(S0.int, 0) < 0 { 0usize } else { top(S0.int, 0) as usize }) }')])
row('INDEX.FLUSH', ['C06'], touches=['index'], clauses=[exact('index', 'Seq::empty()', None, 'fired')])
row('INDEX.POP', ['C06'], touches=['index'], clauses=[
    exact('index', 'S0.index.drop_last()', 'S0.index.len() >= 1', 'fired'), exact('index', 'S0.index', 'S0.index.len() == 0', '{C06,C10}unfired')])
row('INDEX.INCREASE', ['C06'], touches=['index'], clauses=[
    exact('index', 'S0.index.drop_last().push(crate::push::index::Index { current: (%s.current + 1) as usize, destination: %s.destination })' % (_ix, _ix),
          'S0.index.len() >= 1 && %s.current < %s.destination' % (_ix, _ix), 'fired'),
    exact('index', 'S0.index', '!(S0.index.len() >= 1 && %s.current < %s.destination)' % (_ix, _ix), '{C06,C10}unfired')])

# ------------------------------------------------------------------ misc: NOOP, flags
row('NOOP', ['C10'])
row('CODE.NOOP', ['C10'])
row('NAME.SEND', ['C10'], touches=['send'], clauses=[('fired.flag', 'S1.send == true')])

# ------------------------------------------------------------------ C09: element-wise vector operations (README overlap rule)
FN_OVERLAYS = {}
ELEMENTWISE = [
    # NAME, stack short, fn path, local vector name, op as spec closure, guard on elements (for DIVIDE)
    ('BOOLVECTOR.AND', 'boolvec', 'vector::bool_vector_and', 'bv', '|a: bool, b: bool| a && b'),
    ('BOOLVECTOR.OR', 'boolvec', 'vector::bool_vector_or', 'bv', '|a: bool, b: bool| a || b'),
    ('INTVECTOR.+', 'intvec', 'vector::int_vector_add', 'iv', '|a: i32, b: i32| wrap32(a + b)'),
    ('INTVECTOR.-', 'intvec', 'vector::int_vector_subtract', 'iv', '|a: i32, b: i32| wrap32(a - b)'),
    ('FLOATVECTOR.+', 'floatvec', 'vector::float_vector_add', 'iv', '|a: f32, b: f32| f32_add(a, b)'),
    ('FLOATVECTOR.-', 'floatvec', 'vector::float_vector_subtract', 'iv', '|a: f32, b: f32| f32_sub(a, b)'),
    ('FLOATVECTOR.*', 'floatvec', 'vector::float_vector_multiply', 'iv', '|a: f32, b: f32| f32_mul(a, b)'),
]
# int_vector_multiply / int_vector_divide exist but their registration is commented out in load_vector_instructions:
# they are not reachable from any program; they keep their loop invariants and are checked for panic-freedom only.
UNREGISTERED = [('INTVECTOR.*', 'intvec', 'vector::int_vector_multiply', 'iv', '|a: i32, b: i32| wrap32(a * b)')]
for nm, x, path, V, op in ELEMENTWISE + UNREGISTERED:
    sec = 'top(S0.%s, 1).values@' % x
    tp = 'top(S0.%s, 0).values@' % x
    off = 'top(S0.int, 0) as int'
    fired = '(S0.%s.len() >= 2 && S0.int.len() >= 1)' % x
    if (nm, x, path, V, op) not in UNREGISTERED:
        row(nm, ['C09'], takes=[(x, 2), ('int', 1)], pushes=[(x, None)],
            clauses=[('fired.value.%s.0' % x, '%s ==> top(S1.%s, 0).values@ =~= overlay(%s, %s, %s, %s)' % (fired, x, sec, tp, off, op))])
    P = 'push_state'
    osec = 'top(old(%s).%s@, 1).values@' % (P, {'boolvec': 'bool_vector_stack', 'intvec': 'int_vector_stack', 'floatvec': 'float_vector_stack'}[x])
    otp = osec.replace(', 1)', ', 0)')
    FN_OVERLAYS[path] = dict(loops={0: '''            //bind V = if let Some\\((?:mut )?(\\w+)\\) = push_state\\.\\w+\\.pop_vec\\(2\\)
            //bind OFS = if let Some\\((\\w+)\\) = push_state\\.int_stack\\.pop\\(\\)
            //bind SIZE = let (\\w+) = \\w+\\[0\\]\\.values\\.len\\(\\);
            invariant
                $V@.len() == 2, $SIZE == %(sec)s.len(), r3_it0.start <= r3_it0.end, r3_it0.end == %(tp)s.len(),
                $SIZE < 0x7fff_ffff, r3_it0.end < 0x7fff_ffff,
                $V@[1].values@ == %(tp)s,
                $V@[0].values@ =~= overlay_upto(%(sec)s, %(tp)s, $OFS as int, %(op)s, r3_it0.start as int),
            ensures
                $V@.len() == 2, $V@[0].values@ =~= overlay(%(sec)s, %(tp)s, $OFS as int, %(op)s),
            decreases r3_it0.end - r3_it0.start,
''' % dict(V=V, sec=osec, tp=otp, op=op)})

# DIVIDE: a zero divisor anywhere in the overlap makes the instruction a NOOP (the operands are consumed)
VFIELD = {'boolvec': 'bool_vector_stack', 'intvec': 'int_vector_stack', 'floatvec': 'float_vector_stack'}
for nm, x, path, zero, op in [
        ('INTVECTOR./', 'intvec', 'vector::int_vector_divide', '%s == 0',
         '|a: i32, b: i32| if b == 0 { a } else if a == i32::MIN && b == -1 { i32::MIN } else { trunc_div(a as int, b as int) as i32 }'),
        ('FLOATVECTOR./', 'floatvec', 'vector::float_vector_divide', 'f32_eq(%s, 0.0f32)',
         '|a: f32, b: f32| if f32_eq(b, 0.0f32) { a } else { f32_div(a, b) }')]:
    sec = 'top(S0.%s, 1).values@' % x
    tp = 'top(S0.%s, 0).values@' % x
    off = 'top(S0.int, 0) as int'
    nozero = '(forall|i: int| 0 <= i < %s.len() && 0 <= i + (%s) < %s.len() ==> !(%s))' % (tp, off, sec, zero % ('#[trigger] %s[i]' % tp))
    if nm != 'INTVECTOR./':
        row(nm, ['C09'], takes=[(x, 2), ('int', 1)], guard=nozero, pushes=[(x, None)],
            clauses=[('fired.value.%s.0' % x, '(S0.%s.len() >= 2 && S0.int.len() >= 1 && %s) ==> top(S1.%s, 0).values@ =~= overlay(%s, %s, %s, %s)'
                      % (x, nozero, x, sec, tp, off, op))])
    osec = 'top(old(push_state).%s@, 1).values@' % VFIELD[x]
    otp = 'top(old(push_state).%s@, 0).values@' % VFIELD[x]
    FN_OVERLAYS[path] = dict(loops={0: '''            //bind V = if let Some\\((?:mut )?(\\w+)\\) = push_state\\.\\w+\\.pop_vec\\(2\\)
            //bind OFS = if let Some\\((\\w+)\\) = push_state\\.int_stack\\.pop\\(\\)
            //bind SIZE = let (\\w+) = \\w+\\[0\\]\\.values\\.len\\(\\);
            //bind INVALID = let mut (\\w+) = false;
            invariant
                $V@.len() == 2, $SIZE == %(sec)s.len(), r3_it0.start <= r3_it0.end, r3_it0.end == %(tp)s.len(),
                $SIZE < 0x7fff_ffff, r3_it0.end < 0x7fff_ffff,
                $V@[1].values@ == %(tp)s,
                $V@[0].values@ =~= overlay_upto(%(sec)s, %(tp)s, $OFS as int, %(op)s, r3_it0.start as int),
                $INVALID <==> (exists|i: int| 0 <= i < r3_it0.start && 0 <= i + $OFS < %(sec)s.len() && %(z)s),
            ensures
                $V@.len() == 2, $V@[0].values@ =~= overlay(%(sec)s, %(tp)s, $OFS as int, %(op)s),
                $INVALID <==> (exists|i: int| 0 <= i < %(tp)s.len() && 0 <= i + $OFS < %(sec)s.len() && %(z)s),
            decreases r3_it0.end - r3_it0.start,
''' % dict(sec=osec, tp=otp, op=op, z=zero % ('#[trigger] %s[i]' % otp))})

# BOOLVECTOR.NOT: the same overlap rule with the vector itself as the shifted operand
_v = 'top(S0.boolvec, 0).values@'
row('BOOLVECTOR.NOT', ['C09'], takes=[('boolvec', 1), ('int', 1)], pushes=[('boolvec', None)],
    clauses=[('fired.value.boolvec.0', '(S0.boolvec.len() >= 1 && S0.int.len() >= 1) ==> top(S1.boolvec, 0).values@ =~= '
              'Seq::new(%s.len(), |j: int| if 0 <= j - (top(S0.int, 0) as int) < %s.len() { !%s[j] } else { %s[j] })' % (_v, _v, _v, _v))])
_ov = 'top(old(push_state).bool_vector_stack@, 0).values@'
FN_OVERLAYS['vector::bool_vector_not'] = dict(loops={0: '''            //bind V = if let Some\\((?:mut )?(\\w+)\\) = push_state\\.bool_vector_stack\\.pop\\(\\)
            //bind OFS = if let Some\\((\\w+)\\) = push_state\\.int_stack\\.pop\\(\\)
            invariant
                r3_it0.start <= r3_it0.end, r3_it0.end == %(v)s.len(), r3_it0.end < 0x7fff_ffff, $V.values@.len() == %(v)s.len(),
                $V.values@ =~= Seq::new(%(v)s.len(), |j: int| if 0 <= j - ($OFS as int) < r3_it0.start { !%(v)s[j] } else { %(v)s[j] }),
            ensures
                $V.values@ =~= Seq::new(%(v)s.len(), |j: int| if 0 <= j - ($OFS as int) < %(v)s.len() { !%(v)s[j] } else { %(v)s[j] }),
            decreases r3_it0.end - r3_it0.start,
''' % dict(v=_ov)})

# instantiate the envelope's per-vector length bound for the two operands (keeps the proofs independent of trigger luck)
for _nm, _x, _path, _V, _op in ELEMENTWISE + UNREGISTERED + [('INTVECTOR./', 'intvec', 'vector::int_vector_divide', 'iv', ''), ('FLOATVECTOR./', 'floatvec', 'vector::float_vector_divide', 'iv', '')]:
    _f = VFIELD[_x]
    FN_OVERLAYS[_path].setdefault('proofs', {})['body_start'] = '''        proof {
            if push_state.%(f)s@.len() >= 2 {
                assert(push_state.%(f)s@[push_state.%(f)s@.len() - 1].values@.len() < 0x7fff_ffff);
                assert(push_state.%(f)s@[push_state.%(f)s@.len() - 2].values@.len() < 0x7fff_ffff);
            }
        }
''' % dict(f=_f)
FN_OVERLAYS['vector::bool_vector_not'].setdefault('proofs', {})['body_start'] = '''        proof {
            if push_state.bool_vector_stack@.len() >= 1 {
                assert(push_state.bool_vector_stack@[push_state.bool_vector_stack@.len() - 1].values@.len() < 0x7fff_ffff);
            }
        }
'''

for _p in ['vector::int_vector_multiply', 'vector::int_vector_divide']:
    FN_OVERLAYS[_p]['text'] = '    requires envelope(*old(push_state)),\n'

# ------------------------------------------------------------------ C09: GET / SET / LENGTH / constructors / ROTATE / APPEND ...
VEC = {'BOOLVECTOR': ('boolvec', 'bool', 2, 'true', 'false'), 'INTVECTOR': ('intvec', 'int', 10, '1i32', '0i32'),
       'FLOATVECTOR': ('floatvec', 'float', 6, '1.0f32', '0.0f32')}


def top_vec_becomes(x, expr, cond):
    """the top vector of stack x is modified in place: everything below it is untouched"""
    return ('fired.%s.inplace' % x, '(%s) ==> (S1.%s.len() == S0.%s.len() && drop_n(S1.%s, 1) =~= drop_n(S0.%s, 1) && top(S1.%s, 0).values@ =~= (%s))'
            % (cond, x, x, x, x, x, expr))


for T, (x, e, sid, one, zero) in VEC.items():
    v = 'top(S0.%s, 0).values@' % x
    row(T + '.ID', ['C09'], pushes=[('int', '%di32' % sid)])
    row(T + '.LENGTH', ['C09'], fired='(S0.%s.len() >= 1)' % x, pushes=[('int', '%s.len() as i32' % v)])
    for nm, val in [('ONES', one), ('ZEROS', zero)]:
        row(T + '.' + nm, ['C09'], takes=[('int', 1)], guard='top(S0.int, 0) > 0', pushes=[(x, None)],
            clauses=[('fired.value.%s.0' % x, '(S0.int.len() >= 1 && top(S0.int, 0) > 0) ==> top(S1.%s, 0).values@ =~= Seq::new(top(S0.int, 0) as nat, |i: int| %s)' % (x, val))])
    # f32 `==` is IEEE: the FLOATVECTOR comparison result is not a spec-level equality (shape only)
    row(T + '.EQUAL', ['C09'], takes=[(x, 2)], pushes=[('bool', None if T == 'FLOATVECTOR' else 'vstd::std_specs::cmp::PartialEqSpec::eq_spec(&top(S0.%s, 1), &top(S0.%s, 0))' % (x, x))])
    if e != 'int':
        idx = 'top(S0.int, 0) as int'
        # GET: the index clamped into the vector; the vector stays
        row(T + '.GET', ['C09'], takes=[('int', 1)], guard='S0.%s.len() >= 1 && %s.len() > 0' % (x, v),
            pushes=[(e, '%s[clamp_idx(%s, %s.len() as int)]' % (v, idx, v))])
        # SET: replaces element clamp(i) of the top vector by the top element item
        can = 'S0.int.len() >= 1 && S0.%s.len() >= 1 && S0.%s.len() >= 1 && %s.len() > 0' % (e, x, v)
        row(T + '.SET', ['C09'], takes=[('int', 1), (e, 1)], touches=[x], clauses=[
            top_vec_becomes(x, '%s.update(clamp_idx(%s, %s.len() as int), top(S0.%s, 0))' % (v, idx, v, e), can),
            ('{C09,C10}unfired.%s' % x, '!(%s) ==> S1.%s == S0.%s' % (can, x, x))])
        # ROTATE: everything moves one position to the left, the new last element comes from the element stack
        canr = 'S0.%s.len() >= 1 && S0.%s.len() >= 1 && %s.len() > 0' % (e, x, v)
        row(T + '.ROTATE', ['C09'], takes=[(e, 1)], touches=[x], clauses=[
            top_vec_becomes(x, '%s.subrange(1, %s.len() as int).push(top(S0.%s, 0))' % (v, v, e), canr),
            ('{C09,C10}unfired.%s' % x, '!(%s) ==> S1.%s == S0.%s' % (canr, x, x))])
    else:
        idx = 'top(S0.int, 0) as int'
        row(T + '.GET', ['C09'], takes=[('int', 1)], guard='S0.%s.len() >= 1 && %s.len() > 0' % (x, v),
            pushes=[('int', '%s[clamp_idx(%s, %s.len() as int)]' % (v, idx, v))])
        can = 'S0.int.len() >= 2 && S0.%s.len() >= 1 && %s.len() > 0' % (x, v)
        row(T + '.SET', ['C09'], takes=[('int', 2)], touches=[x], clauses=[
            top_vec_becomes(x, '%s.update(clamp_idx(%s, %s.len() as int), top(S0.int, 1))' % (v, idx, v), can),
            ('{C09,C10}unfired.%s' % x, '!(%s) ==> S1.%s == S0.%s' % (can, x, x))])
        canr = 'S0.int.len() >= 1 && S0.%s.len() >= 1 && %s.len() > 0' % (x, v)
        row(T + '.ROTATE', ['C09'], takes=[('int', 1)], touches=[x], clauses=[
            top_vec_becomes(x, '%s.subrange(1, %s.len() as int).push(top(S0.int, 0))' % (v, v), canr),
            ('{C09,C10}unfired.%s' % x, '!(%s) ==> S1.%s == S0.%s' % (canr, x, x))])
    if T != 'BOOLVECTOR':
        row(T + '.EMPTY', ['C09'], pushes=[(x, None)], clauses=[('fired.value.%s.0' % x, 'top(S1.%s, 0).values@ =~= Seq::empty()' % x)])
        # APPEND: the vector is looked up first; nothing is consumed unless both operands exist
        both = 'S0.%s.len() >= 1 && S0.%s.len() >= 1' % (x, e)
        row(T + '.APPEND', ['C09'], fired='(%s)' % both, touches=[x, e], clauses=[
            top_vec_becomes(x, '%s.push(top(S0.%s, 0))' % (v, e), both),
            ('fired.%s' % e, '(%s) ==> S1.%s =~= S0.%s.drop_last()' % (both, e, e)),
            ('{C09,C10}unfired.%s' % x, '!(%s) ==> S1.%s == S0.%s' % (both, x, x)),
            ('{C09,C10}unfired.%s' % e, '!(%s) ==> S1.%s == S0.%s' % (both, e, e))])
row('INTVECTOR.CONTAINS', ['C09'], takes=[('int', 1), ('intvec', 1)], pushes=[('bool', 'top(S0.intvec, 0).values@.contains(top(S0.int, 0))')])
# SET*INSERT: creates an empty vector when there is none (documented), appends the integer unless it is already contained
_iv = 'top(S0.intvec, 0).values@'
row('INTVECTOR.SET*INSERT', ['C09'], touches=['intvec', 'int'], clauses=[
    ('fired.int', 'S0.int.len() >= 1 ==> S1.int =~= S0.int.drop_last()'),
    ('{C09,C10}unfired.int', 'S0.int.len() == 0 ==> S1.int == S0.int'),
    top_vec_becomes('intvec', 'if %s.contains(top(S0.int, 0)) { %s } else { %s.push(top(S0.int, 0)) }' % (_iv, _iv, _iv), 'S0.intvec.len() >= 1 && S0.int.len() >= 1'),
    ('fired.intvec.created', '(S0.intvec.len() == 0 && S0.int.len() >= 1) ==> S1.intvec.len() == 1 && S1.intvec[0].values@ =~= seq![top(S0.int, 0)]'),
    ('fired.intvec.created.empty', '(S0.intvec.len() == 0 && S0.int.len() == 0) ==> S1.intvec.len() == 1 && S1.intvec[0].values@ =~= Seq::empty()'),
    ('{C09,C10}unfired.intvec', '(S0.intvec.len() >= 1 && S0.int.len() == 0) ==> S1.intvec == S0.intvec')])
# FROMINT: the top integer n (clamped into 0..depth) says how many of the remaining integers become the vector (order kept)
_n = 'clamp_count(top(S0.int, 0) as int, S0.int.len() - 1)'
row('INTVECTOR.FROMINT', ['C09', 'C15'], touches=['int', 'intvec'], clauses=[
    ('fired.int', 'S0.int.len() >= 1 ==> S1.int =~= S0.int.subrange(0, S0.int.len() - 1 - %s)' % _n),
    ('fired.intvec', 'S0.int.len() >= 1 ==> S1.intvec.len() == S0.intvec.len() + 1 && drop_n(S1.intvec, 1) =~= S0.intvec '
     '&& top(S1.intvec, 0).values@ =~= S0.int.subrange(S0.int.len() - 1 - %s, S0.int.len() - 1)' % _n),
    ('{C09,C10}unfired.int', 'S0.int.len() == 0 ==> S1.int == S0.int && S1.intvec == S0.intvec')])

# ------------------------------------------------------------------ C06: EXEC / CODE control flow (single steps)
IT = 'crate::push::item::Item'


def instr(name):
    return '(i is InstructionMeta && i->InstructionMeta_name@ == "%s"@)' % name


def is_list_of(item, elems):
    """item is a List whose elements, bottom first, satisfy the given predicates/equalities"""
    conds = ['%s is List' % item, '%s->items@.len() == %d' % (item, len(elems))]
    for k, e in enumerate(elems):
        if e.startswith('='):
            conds.append('%s->items@[%d] == %s' % (item, k, e[1:]))
        else:
            conds.append('({ let i = %s->items@[%d]; %s })' % (item, k, instr(e)))
    return '(' + ' && '.join(conds) + ')'


e0, e1, e2 = 'top(S0.exec, 0)', 'top(S0.exec, 1)', 'top(S0.exec, 2)'
row('EXEC.IF', ['C06'], takes=[('exec', 2), ('bool', 1)], pushes=[('exec', 'if top(S0.bool, 0) { %s } else { %s }' % (e0, e1))])
row('EXEC.K', ['C06'], takes=[('exec', 2)], pushes=[('exec', e0)])
# S: A (top), B, C  ->  ( B C ), C, A (A on top); the list executes B first
row('EXEC.S', ['C06'], takes=[('exec', 3)], pushes=[('exec', None), ('exec', e2), ('exec', e0)],
    clauses=[('fired.value.exec.0', 'S0.exec.len() >= 3 ==> %s' % is_list_of('S1.exec[S0.exec.len() - 3]', ['=' + e2, '=' + e1]))])
# Y: beneath the top item, ( EXEC.Y <top> )
row('EXEC.Y', ['C06'], fired='(S0.exec.len() >= 1)', touches=['exec'], clauses=[
    ('fired.exec', 'S0.exec.len() >= 1 ==> S1.exec.len() == S0.exec.len() + 1 && drop_n(S1.exec, 2) =~= drop_n(S0.exec, 1) && top(S1.exec, 0) == %s && %s'
     % (e0, is_list_of('top(S1.exec, 1)', ['=' + e0, 'EXEC.Y']))),
    ('{C06,C10}unfired.exec', 'S0.exec.len() == 0 ==> S1.exec == S0.exec')])
# "=": the documentation does not say the operands are consumed; the comparison itself is on printed forms (opaque)
row('EXEC.=', ['C06'], fired='(S0.exec.len() >= 2)', touches=['exec'], pushes=[('bool', 'str_of(top(S0.exec, 1)) == str_of(top(S0.exec, 0))')], clauses=[('fired.operand.exec', 'shrunk(S0.exec, S1.exec, 2)')])
row('EXEC.ID', ['C06'], pushes=[('int', '4i32')])
row('CODE.ID', ['C08'], pushes=[('int', '3i32')])
# LOOP: body, index -> if current < destination: ( body EXEC.LOOP INDEX.INCREASE ) then body on top; else the index is removed
_ix = 'top(S0.index, 0)'
for nm, src in [('EXEC.LOOP', 'exec'), ('CODE.LOOP', 'code')]:
    body = 'top(S0.%s, 0)' % src
    have = 'S0.%s.len() >= 1 && S0.index.len() >= 1' % src
    go = '%s && %s.current < %s.destination' % (have, _ix, _ix)
    stop = '%s && !(%s.current < %s.destination)' % (have, _ix, _ix)
    base = 'drop_n(S0.exec, 1)' if src == 'exec' else 'S0.exec'
    cl = [
        ('fired.exec.rearm', '(%s) ==> S1.exec.len() == %s.len() + 2 && drop_n(S1.exec, 2) =~= %s && top(S1.exec, 0) == %s && %s'
         % (go, base, base, body, is_list_of('top(S1.exec, 1)', ['=' + body, nm, 'INDEX.INCREASE']))),
        ('fired.index.kept', '(%s) ==> S1.index == S0.index' % go),
        ('fired.exec.done', '(%s) ==> S1.exec =~= %s' % (stop, base)),
        ('fired.index.done', '(%s) ==> S1.index =~= S0.index.drop_last()' % stop),
        ('{C06,C10}unfired.index', '!(%s) ==> S1.index == S0.index' % have),
        ('{C06,C10}unfired.exec', '!(%s) ==> shrunk(S0.exec, S1.exec, %d)' % (have, 1 if src == 'exec' else 0)),
    ]
    if src == 'code':
        cl += [('fired.code', '(%s) ==> S1.code =~= S0.code.drop_last()' % have), ('{C06,C10}unfired.code', '!(%s) ==> shrunk(S0.code, S1.code, 1)' % have)]
        # "executes its body exactly destination-many times": the re-armed CODE.LOOP takes its body from the CODE stack, so the code this
        # step schedules must bring the body back there before CODE.LOOP runs again -- either the loop code re-quotes it
        # ( INDEX.INCREASE CODE.QUOTE body CODE.LOOP ), or the body stays on the CODE stack and the loop code is ( INDEX.INCREASE CODE.LOOP ).
        # (EXEC.LOOP needs no such clause: its re-armed list ( INDEX.INCREASE EXEC.LOOP body ) puts the body right where EXEC.LOOP pops it.)
        cl += [('fired.rearm.next-round-finds-its-body', '(%s) ==> (%s || (S1.code.len() >= 1 && top(S1.code, 0) == %s && %s))'
                % (go, is_list_of('top(S1.exec, 1)', [nm, '=' + body, 'CODE.QUOTE', 'INDEX.INCREASE']), body, is_list_of('top(S1.exec, 1)', [nm, 'INDEX.INCREASE'])))]
    row(nm, ['C06'], touches=['exec', 'index'] + (['code'] if src == 'code' else []), clauses=cl)
# CODE.DO: CODE.POP is scheduled beneath the program (runs after it); DO*: above it (runs first); the CODE stack is not touched by the step
c0, c1 = 'top(S0.code, 0)', 'top(S0.code, 1)'
row('CODE.DO', ['C06'], fired='(S0.code.len() >= 1)', pushes=[('exec', None), ('exec', c0)],
    clauses=[('fired.value.exec.0', 'S0.code.len() >= 1 ==> ({ let i = top(S1.exec, 1); %s })' % instr('CODE.POP'))])
row('CODE.DO*', ['C06'], fired='(S0.code.len() >= 1)', pushes=[('exec', c0), ('exec', None)],
    clauses=[('fired.value.exec.1', 'S0.code.len() >= 1 ==> ({ let i = top(S1.exec, 0); %s })' % instr('CODE.POP'))])
row('CODE.IF', ['C06'], takes=[('code', 2), ('bool', 1)], pushes=[('exec', 'if top(S0.bool, 0) { %s } else { %s }' % (c1, c0))])
row('CODE.QUOTE', ['C06'], takes=[('exec', 1)], pushes=[('code', e0)])
# INTVECTOR.LOOP: first element to INTEGER, body scheduled, then ( body INTVECTOR.LOOP <tail> )
_vec = 'top(S0.intvec, 0).values@'
_have = 'S0.intvec.len() >= 1 && S0.exec.len() >= 1'
_go = '%s && %s.len() > 0' % (_have, _vec)
row('INTVECTOR.LOOP', ['C06'], touches=['exec', 'intvec', 'int'], clauses=[
    ('fired.intvec', 'S0.intvec.len() >= 1 ==> S1.intvec =~= S0.intvec.drop_last()'),
    ('fired.int', '(%s) ==> S1.int =~= S0.int.push(%s[0])' % (_go, _vec)),
    ('fired.exec', '(%s) ==> S1.exec.len() == S0.exec.len() + 1 && drop_n(S1.exec, 2) =~= drop_n(S0.exec, 1) && top(S1.exec, 0) == %s'
     ' && top(S1.exec, 1) is List && top(S1.exec, 1)->items@.len() == 3 && top(S1.exec, 1)->items@[0] == %s'
     ' && ({ let i = top(S1.exec, 1)->items@[1]; %s })'
     ' && top(S1.exec, 1)->items@[2] is Literal && top(S1.exec, 1)->items@[2]->push_type is IntVector'
     ' && top(S1.exec, 1)->items@[2]->push_type->IntVector_val.values@ =~= %s.subrange(1, %s.len() as int)'
     % (_go, e0, e0, instr('INTVECTOR.LOOP'), _vec, _vec)),
    ('fired.exec.done', '(%s && %s.len() == 0) ==> S1.exec =~= drop_n(S0.exec, 1) && S1.int == S0.int' % (_have, _vec)),
    ('{C06,C10}unfired', '!(%s) ==> S1.int == S0.int && shrunk(S0.exec, S1.exec, 0) && shrunk(S0.intvec, S1.intvec, 1)' % _have)])

# ------------------------------------------------------------------ C19: LIST records on the CODE stack
_k = 'clamp_idx(top(S0.int, 0) as int, S0.code.len() as int)'
row('LIST.REMOVE', ['C19'], takes=[('int', 1)], touches=['code'], clauses=[
    ('fired.code', '(S0.int.len() >= 1 && S0.code.len() >= 1) ==> S1.code =~= S0.code.remove(S0.code.len() - 1 - %s)' % _k),
    ('fired.code.empty', '(S0.int.len() >= 1 && S0.code.len() == 0) ==> S1.code == S0.code'),
    ('{C19,C10}unfired.code', 'S0.int.len() == 0 ==> S1.code == S0.code')])
# GET: a copy of the addressed record is scheduled for execution; the record stays where it is
_rec = 'top(S0.code, %s)' % _k
row('LIST.GET', ['C19'], takes=[('int', 1)], touches=['exec'], clauses=[
    ('fired.exec', '(S0.int.len() >= 1 && S0.code.len() >= 1 && %s is List) ==> S1.exec.len() == S0.exec.len() + 1 && drop_n(S1.exec, 1) =~= S0.exec '
     '&& top(S1.exec, 0) is List && top(S1.exec, 0)->items@ == %s->items@' % (_rec, _rec)),
    ('{C19,C10}unfired.exec', '!(S0.int.len() >= 1 && S0.code.len() >= 1 && %s is List) ==> S1.exec == S0.exec' % _rec)])
# BVAL / IVAL / FVAL: operands (record address = second, n = top); the record address is clamped; value: see spec fn nth_of_kind
_k2 = 'clamp_idx(top(S0.int, 1) as int, S0.code.len() as int)'
# n = top integer reinterpreted as an unsigned count (a negative n addresses nothing: the default is returned)
for nm, st, fn in [('LIST.BVAL', 'bool', 'nth_bool'), ('LIST.IVAL', 'int', 'nth_int'), ('LIST.FVAL', 'float', 'nth_float')]:
    row(nm, ['C19'], takes=[('int', 2)], guard='S0.code.len() >= 1',
        pushes=[(st, 'crate::push::item::%s(top(S0.code, %s), top(S0.int, 0) as usize as nat)' % (fn, _k2))])
# ADD / SET move items between all typed stacks (footprint: every stack a stack id can name, and CODE)
_typed = ['bool', 'boolvec', 'code', 'exec', 'float', 'floatvec', 'int', 'intvec', 'name']
_T = 'crate::push::list::typed_of(S0)'
_c = 'crate::push::list::after_ids(%s).0' % _T
_items = 'crate::push::list::after_ids(%s).1' % _T
_others = ' && '.join('S1.%s == %s.%s_s' % (f, _c, f) for f in ['bool', 'boolvec', 'exec', 'float', 'floatvec', 'int', 'intvec', 'name'])
# ADD: exactly the designated items (vector order, empty stacks skipped) are removed and one record containing them is pushed
row('LIST.ADD', ['C19'], touches=_typed, clauses=[
    ('fired.record', 'S0.intvec.len() >= 1 ==> (%s && S1.code.len() == %s.code_s.len() + 1 && drop_n(S1.code, 1) =~= %s.code_s '
     '&& top(S1.code, 0) is List && top(S1.code, 0)->items@ == %s)' % (_others, _c, _c, _items)),
    ('{C19,C10}unfired', 'S0.intvec.len() == 0 ==> (S1.bool == S0.bool && S1.boolvec == S0.boolvec && S1.code == S0.code && S1.exec == S0.exec '
     '&& S1.float == S0.float && S1.floatvec == S0.floatvec && S1.int == S0.int && S1.intvec == S0.intvec && S1.name == S0.name)')])
# SET: the record address (top INTEGER, clamped into the CODE stack as it is BEFORE the items are collected) is replaced by the new record
_T2 = 'crate::push::list::Typed { int_s: S0.int.drop_last(), ..crate::push::list::typed_of(S0) }'
_c2 = 'crate::push::list::after_ids(%s).0' % _T2
_items2 = 'crate::push::list::after_ids(%s).1' % _T2
_others2 = ' && '.join('S1.%s == %s.%s_s' % (f, _c2, f) for f in ['bool', 'boolvec', 'exec', 'float', 'floatvec', 'int', 'intvec', 'name'])
_addr = 'clamp_idx(top(S0.int, 0) as int, S0.code.len() as int)'
row('LIST.SET', ['C19'], touches=_typed, clauses=[
    ('fired.record', '(S0.int.len() >= 1 && S0.intvec.len() >= 1) ==> (%s && S1.code.len() == %s.code_s.len() '
     '&& (forall|i: int| 0 <= i < S1.code.len() && i != S1.code.len() - 1 - %s ==> S1.code[i] == %s.code_s[i]) '
     '&& (%s < S1.code.len() ==> S1.code[S1.code.len() - 1 - %s] is List && S1.code[S1.code.len() - 1 - %s]->items@ == %s))'
     % (_others2, _c2, _addr, _c2, _addr, _addr, _addr, _items2)),
    ('fired.noids', '(S0.int.len() >= 1 && S0.intvec.len() == 0) ==> (S1.int =~= S0.int.drop_last() && S1.code == S0.code && S1.bool == S0.bool && S1.boolvec == S0.boolvec '
     '&& S1.exec == S0.exec && S1.float == S0.float && S1.floatvec == S0.floatvec && S1.intvec == S0.intvec && S1.name == S0.name)'),
    ('{C19,C10}unfired', 'S0.int.len() == 0 ==> (S1.bool == S0.bool && S1.boolvec == S0.boolvec && S1.code == S0.code && S1.exec == S0.exec '
     '&& S1.float == S0.float && S1.floatvec == S0.floatvec && S1.int == S0.int && S1.intvec == S0.intvec && S1.name == S0.name)')])
# NEIGHBOR*: operands, clamping, and the result (geometry: C20, Topology::find_neighbors' contract)
# operand order on the INTEGER stack (top first): size, index, dimensions [, position below for *VALS: it is the 4th from the top]
def _nb(base):
    size = '(if top(S0.int, %d) < 0 { 0int } else { top(S0.int, %d) as int })' % (base, base)          # max(size, 0)
    size_u = '(%s as usize)' % size
    index = '(if top(S0.int, %d) < %s - 1 { if top(S0.int, %d) < 0 { 0 } else { top(S0.int, %d) as int } } else { if %s - 1 < 0 { 0 } else { %s - 1 } }) as usize' % (base + 1, size, base + 1, base + 1, size, size)
    dims = '(if top(S0.int, %d) < %s { if top(S0.int, %d) < 0 { 0 } else { top(S0.int, %d) as int } } else { %s }) as usize' % (base + 2, size, base + 2, base + 2, size)
    radius = 'f_max(top(S0.float, 0), 0.0f32)'
    T = 'crate::push::topology::'
    some = '(%sfn_params_valid(%s, %s, %s, %s) && %spowers_fit(%sedge_len(%s, %s), %s))' % (T, size_u, dims, index, radius, T, T, size_u, dims, dims)
    nbs = '%sneighbours_upto(%sedge_len(%s, %s), %s, %s, %s, %s as nat)' % (T, T, size_u, dims, dims, index, radius, size_u)
    return some, nbs
_some3, _nbs3 = _nb(0)
row('LIST.NEIGHBOR*IDS', ['C20'], takes=[('int', 3), ('float', 1)], touches=['intvec'], clauses=[
    ('fired.intvec', 'shrunk(S1.intvec, S0.intvec, 1) && S1.intvec.len() >= S0.intvec.len()'),
    ('fired.neighbourhood-of-the-clamped-operands', '(S0.int.len() >= 3 && S0.float.len() >= 1 && %s) ==> (S1.intvec.len() == S0.intvec.len() + 1 && top(S1.intvec, 0).values@ == %s)' % (_some3, _nbs3)),
    ('fired.no-result-for-invalid-topology', '(S0.int.len() >= 3 && S0.float.len() >= 1 && !%s) ==> S1.intvec == S0.intvec' % _some3),
    ('{C20,C10}unfired.intvec', '!(S0.int.len() >= 3 && S0.float.len() >= 1) ==> S1.intvec == S0.intvec')])
FN_OVERLAYS['list::list_neighbor_ids'] = dict(attrs='#[verifier::loop_isolation(false)]\n', loops={0: '''
            //bind R = let mut (\\w+)(?:\\s*:[^=;]+)? = (?:vec!\\[\\]|Vec::new\\(\\)|Vec::with_capacity\\([^;]*\\));
            //bind NBV = if let Some\\((\\w+)\\) =\\s*Topology::find_neighbors
            invariant seq_i32(&$R).len() == $R@.len(), $R@ == $NBV.values@.subrange(0, ghost_iter.index@), ghost_iter.seq().len() == $NBV.values@.len(),
                forall|k: int| 0 <= k < $NBV.values@.len() ==> *#[trigger] ghost_iter.seq()[k] == $NBV.values@[k],
'''})
_some4, _nbs4 = _nb(1)
for nm, st, kind, seqw in [('LIST.NEIGHBOR*BVALS', 'boolvec', 'bool', 'seq_bool'), ('LIST.NEIGHBOR*IVALS', 'intvec', 'int', 'seq_i32'), ('LIST.NEIGHBOR*FVALS', 'floatvec', 'float', 'seq_f32')]:
    row(nm, ['C20'], takes=[('int', 4), ('float', 1)], touches=[st], clauses=[
        ('fired.%s' % st, 'shrunk(S1.%s, S0.%s, 1) && S1.%s.len() >= S0.%s.len()' % (st, st, st, st)),
        # the position operand is `as usize`, negative ones included: the specification uses the same cast as the code
        ('fired.addressed-values-of-the-neighbourhood', '(S0.int.len() >= 4 && S0.float.len() >= 1 && %s) ==> (S1.%s.len() == S0.%s.len() + 1 '
         '&& top(S1.%s, 0).values@ == crate::push::list::nvals_%s(S0.code, %s, top(S0.int, 0) as usize as nat, %s.len()))' % (_some4, st, st, st, kind, _nbs4, _nbs4)),
        ('fired.no-result-for-invalid-topology', '(S0.int.len() >= 4 && S0.float.len() >= 1 && !%s) ==> S1.%s == S0.%s' % (_some4, st, st)),
        ('{C20,C10}unfired.%s' % st, '!(S0.int.len() >= 4 && S0.float.len() >= 1) ==> S1.%s == S0.%s' % (st, st))])
    FN_OVERLAYS['list::list_neighbor_%ss' % {'bool': 'bval', 'int': 'ival', 'float': 'fval'}[kind]] = dict(loops={0: '''
            //bind R = let mut (\\w+)(?:\\s*:[^=;]+)? = (?:vec!\\[\\]|Vec::new\\(\\)|Vec::with_capacity\\([^;]*\\));
            //bind NBV = if let Some\\((\\w+)\\) =\\s*Topology::find_neighbors
            //bind POS = let (\\w+)(?:\\s*:[^=;]+)? = [^;]*topology\\[3\\][^;]*;
            invariant %s ghost_iter.seq().len() == $NBV.values@.len(), ghost_iter.index@ <= $NBV.values@.len(),
                forall|k: int| 0 <= k < $NBV.values@.len() ==> *#[trigger] ghost_iter.seq()[k] == $NBV.values@[k],
                forall|k: int| 0 <= k < $NBV.values@.len() ==> 0 <= #[trigger] $NBV.values@[k],
                forall|j: int, k: int| 0 <= j < k < $NBV.values@.len() ==> $NBV.values@[j] < $NBV.values@[k],
                $R@.len() <= ghost_iter.index@, $R@.len() <= push_state.code_stack@.len(),
                $R@ == crate::push::list::nvals_%s(push_state.code_stack@, $NBV.values@, $POS as nat, ghost_iter.index@ as nat),
''' % (('%s(&$R).len() == $R@.len(),' % seqw) if seqw else '', kind)},
        proofs={'loop 0 start': '''            //bind NBV = if let Some\\((\\w+)\\) =\\s*Topology::find_neighbors
            proof { crate::push::topology::lemma_ascending_ge_index($NBV.values@, ghost_iter.index@); }
'''})

# ------------------------------------------------------------------ C08: CODE list operations -- operand handling and footprint
# (value clauses against the depth-first point functions are added in spec/code_rows below as they are proved)
row('CODE.=', ['C08'], fired='(S0.code.len() >= 2)', touches=['code'], pushes=[('bool', 'str_of(top(S0.code, 1)) == str_of(top(S0.code, 0))')], clauses=[('fired.operand.code', 'shrunk(S0.code, S1.code, 2)')])
row('CODE.APPEND', ['C08'], takes=[('code', 2)], pushes=[('code', None)])
row('CODE.ATOM', ['C08'], fired='(S0.code.len() >= 1)', pushes=[('bool', '!(top(S0.code, 0) is List)')])
row('CODE.CAR', ['C08'], touches=['code'], clauses=[
    ('fired.code', '(S0.code.len() >= 1 && top(S0.code, 0) is List && top(S0.code, 0)->items@.len() >= 1) ==> S1.code =~= S0.code.drop_last().push(top(S0.code, 0)->items@.last())'),
    ('fired.code.nonlist', '(S0.code.len() >= 1 && !(top(S0.code, 0) is List)) ==> S1.code == S0.code'),
    ('{C08,C10}unfired.code', 'S0.code.len() == 0 ==> S1.code == S0.code')])
row('CODE.CDR', ['C08'], touches=['code'], clauses=[
    ('fired.code', '(S0.code.len() >= 1 && top(S0.code, 0) is List) ==> S1.code.len() == S0.code.len() && drop_n(S1.code, 1) =~= drop_n(S0.code, 1) '
     '&& top(S1.code, 0) is List && top(S1.code, 0)->items@ =~= (if top(S0.code, 0)->items@.len() >= 1 { top(S0.code, 0)->items@.drop_last() } else { top(S0.code, 0)->items@ })'),
    ('{C08,C10}unfired.code', 'S0.code.len() == 0 ==> S1.code == S0.code')])
# CONS: the second item becomes the first element of the first item (coerced to a list); no atom of either operand is lost
row('CODE.CONS', ['C08'], takes=[('code', 2)], pushes=[('code', None)], clauses=[
    ('fired.value.code.0', 'S0.code.len() >= 2 ==> top(S1.code, 0) is List && top(S1.code, 0)->items@ =~= '
     '(if top(S0.code, 0) is List { top(S0.code, 0)->items@ } else { seq![top(S0.code, 0)] }).push(top(S0.code, 1))')])
# CONTAINER: the list of the top item that directly holds the first (depth first) occurrence of the second item; an empty list when the
# second item does not occur strictly inside the top item
_co = 'crate::push::item::container_of(top(S0.code, 0), top(S0.code, 1))'
row('CODE.CONTAINER', ['C08'], fired='(S0.code.len() >= 2)', pushes=[('code', None)], clauses=[
    ('fired.value.container', '(S0.code.len() >= 2 && %s.is_some()) ==> top(S1.code, 0) == %s.unwrap()' % (_co, _co)),
    ('fired.value.no-container', '(S0.code.len() >= 2 && %s.is_none()) ==> (top(S1.code, 0) is List && top(S1.code, 0)->items@.len() == 0)' % _co)])
# CONTAINS: the top item contains the second item anywhere (at any depth, itself included) -- the operand order the repository's test pins;
# MEMBER is its mirror image (the second item contains the top item).  Structural: some point of the container equals the other item.
row('CODE.CONTAINS', ['C08'], fired='(S0.code.len() >= 2)', pushes=[('bool', 'crate::push::item::first_pos(top(S0.code, 0), top(S0.code, 1)).is_some()')])
row('CODE.MEMBER', ['C08'], fired='(S0.code.len() >= 2)', pushes=[('bool', 'crate::push::item::first_pos(top(S0.code, 1), top(S0.code, 0)).is_some()')])
row('CODE.DISCREPANCY', ['C08'], fired='(S0.code.len() >= 2)', pushes=[('int', 'crate::push::code::discrepancy_of(top(S0.code, 1), top(S0.code, 0))')])
FN_OVERLAYS['code::code_discrepancy'] = dict(attrs='#[verifier::loop_isolation(false)]\n', loops={0: '''
            invariant discrepancy == crate::push::code::mismatches(fstlist@, scdlist@, ghost_iter.index@ as nat), 0 <= discrepancy <= ghost_iter.index@, discrepancy <= scdlist@.len(),
                fstvec@.len() == fstlist@.len(), fstlist@.len() < 0x7fff_ffff, scdlist@.len() < 0x7fff_ffff,
                forall|k: int| 0 <= k < fstvec@.len() ==> #[trigger] fstvec@[k] == fstlist@[k],
'''}, proofs={'body_start': '''        proof {
            if push_state.code_stack@.len() >= 2 {
                crate::push::item::lemma_points_gt_len(top(push_state.code_stack@, 0));
                crate::push::item::lemma_points_gt_len(top(push_state.code_stack@, 1));
                assert(crate::push::item::points(push_state.code_stack@[push_state.code_stack@.len() - 1]) < 0x7fff_ffff);
                assert(crate::push::item::points(push_state.code_stack@[push_state.code_stack@.len() - 2]) < 0x7fff_ffff);
            }
        }
''', 'loop 0 start': '''                                proof { crate::push::code::lemma_mismatches_bounds(fstlist@, scdlist@, (ghost_iter.index@ + 1) as nat); }
'''})
row('CODE.DEFINITION', ['C07'], takes=[('name', 1)], guard='S0.bindings.contains_key(top(S0.name, 0))', pushes=[('code', 'S0.bindings[top(S0.name, 0)]')])
PTS = 'crate::push::item::points'
NTH = 'crate::push::item::nth_point'
_c = 'top(S0.code, 0)'
_i = 'top(S0.int, 0)'
# EXTRACT: index i in range -> the i-th point (depth first); any other index -> some point of the item (the "meaningful range")
row('CODE.EXTRACT', ['C08'], takes=[('int', 1)], guard='S0.code.len() >= 1', pushes=[('code', None)], clauses=[
    ('fired.value.code.inrange', '(S0.int.len() >= 1 && S0.code.len() >= 1 && 0 <= %s < %s(%s)) ==> Some(top(S1.code, 0)) == %s(%s, %s as nat)' % (_i, PTS, _c, NTH, _c, _i)),
    ('fired.value.code.normalised', '(S0.int.len() >= 1 && S0.code.len() >= 1) ==> exists|k: nat| k < %s(%s) && Some(top(S1.code, 0)) == %s(%s, k)' % (PTS, _c, NTH, _c))])
row('CODE.SIZE', ['C08'], fired='(S0.code.len() >= 1)', pushes=[('int', '%s(%s) as i32' % (PTS, _c))])
row('CODE.FROMBOOLEAN', ['C04', 'C08'], takes=[('bool', 1)], pushes=[('code', '%s::Literal { push_type: crate::push::item::PushType::Bool { val: top(S0.bool, 0) } }' % IT)])
row('CODE.FROMFLOAT', ['C04', 'C08'], takes=[('float', 1)], pushes=[('code', '%s::Literal { push_type: crate::push::item::PushType::Float { val: top(S0.float, 0) } }' % IT)])
row('CODE.FROMINTEGER', ['C04', 'C08'], takes=[('int', 1)], pushes=[('code', '%s::Literal { push_type: crate::push::item::PushType::Int { val: top(S0.int, 0) } }' % IT)])
row('CODE.FROMNAME', ['C04', 'C08'], takes=[('name', 1)], pushes=[('code', None)],
    clauses=[('fired.value.code.0', 'S0.name.len() >= 1 ==> top(S1.code, 0) is Identifier')])
row('CODE.INSERT', ['C08'], takes=[('int', 1)], touches=['code'], clauses=[
    ('fired.code.shape', 'S1.code.len() == S0.code.len() && (S0.code.len() >= 1 ==> drop_n(S1.code, 1) =~= drop_n(S0.code, 1))'),
    # "inserting the second item into the first at the indexed point": a following EXTRACT at the same index yields the inserted item
    ('fired.extract-after-insert', '(S0.int.len() >= 1 && S0.code.len() >= 2 && 0 <= %s < %s(%s)) ==> %s(top(S1.code, 0), %s as nat) == Some(top(S0.code, 1))' % (_i, PTS, _c, NTH, _i)),
    # "... and changes nothing outside the replaced subtree": structurally, only the addressed point differs
    ('fired.only-the-addressed-point-replaced', '(S0.int.len() >= 1 && S0.code.len() >= 2 && 1 <= %s < %s(%s)) ==> crate::push::item::ins_ok(%s, top(S1.code, 0), %s as nat, top(S0.code, 1))' % (_i, PTS, _c, _c, _i)),
    # the property quantifies over ALL indices ("the indexing is computed as in CODE.EXTRACT", i.e. modulo the number of points): for an index outside
    # 0..points the following EXTRACT normalises it, but INSERT does nothing -- pinned by the repository's test code_insert_does_nothing_when_index_too_big
    ('fired.extract-after-insert.out-of-range-index', '(S0.int.len() >= 1 && S0.code.len() >= 2 && !(0 <= %s < %s(%s))) ==> %s(top(S1.code, 0), ((%s as int) %% (%s(top(S1.code, 0)) as int)) as nat) == Some(top(S0.code, 1))' % (_i, PTS, _c, NTH, _i, PTS)),
    # an index beyond the points of the item leaves it as it is, as far as sizes go (the repository's test pins "does nothing when index too big")
    ('fired.beyond-keeps-size', '(S0.int.len() >= 1 && S0.code.len() >= 2 && %s >= %s(%s)) ==> %s(top(S1.code, 0)) == %s(%s)' % (_i, PTS, _c, PTS, PTS, _c)),
    ('{C08,C10}unfired.code', '!(S0.int.len() >= 1 && S0.code.len() >= 2) ==> S1.code == S0.code')])
row('CODE.LENGTH', ['C08'], fired='(S0.code.len() >= 1)',
    pushes=[('int', 'if top(S0.code, 0) is List { top(S0.code, 0)->items@.len() as i32 } else { 1i32 }')])
row('CODE.LIST', ['C08'], fired='(S0.code.len() >= 2)', pushes=[('code', None)],
    clauses=[('fired.value.code.0', 'S0.code.len() >= 2 ==> top(S1.code, 0) is List && top(S1.code, 0)->items@ =~= seq![top(S0.code, 1), top(S0.code, 0)]')])
# NTH (as the repository's test pins it): the index is taken modulo (length + 1); 0 addresses the whole expression, i > 0 its i-th element
_nn = '(if %s is List { (%s->items@.len() + 1) as int } else { 1int })' % (_c, _c)
_ni = '((%s as int) %% %s)' % (_i, _nn)
row('CODE.NTH', ['C08'], takes=[('int', 1)], guard='S0.code.len() >= 1', pushes=[('code', None)], clauses=[
    ('fired.value.whole', '(S0.int.len() >= 1 && S0.code.len() >= 1 && %s == 0) ==> top(S1.code, 0) == %s' % (_ni, _c)),
    ('fired.value.element', '(S0.int.len() >= 1 && S0.code.len() >= 1 && %s > 0) ==> top(S1.code, 0) == %s->items@[%s->items@.len() - %s]' % (_ni, _c, _c, _ni))])
row('CODE.NULL', ['C08'], fired='(S0.code.len() >= 1)', pushes=[('bool', 'top(S0.code, 0) is List && top(S0.code, 0)->items@.len() == 0')])
# POSITION: index (depth first, as EXTRACT counts) of the first point of the top item that equals the second item; -1 exactly when there is none
FP = 'crate::push::item::first_pos'
row('CODE.POSITION', ['C08'], fired='(S0.code.len() >= 2)',
    pushes=[('int', 'match %s(top(S0.code, 0), top(S0.code, 1)) { Some(p) => p as i32, None => -1i32 }' % FP)])
row('CODE.PRINT', ['C11'], fired='(S0.code.len() >= 1)', pushes=[('name', None)])
# SUBST: target = top item, substitute = second, pattern = third (the operand order of the code's own comments): every structural (deep-equal)
# match of the pattern in the target is replaced by the substitute -- the whole target when it matches itself -- and nothing else changes
_t, _su, _pa = 'top(S0.code, 0)', 'top(S0.code, 1)', 'top(S0.code, 2)'
row('CODE.SUBST', ['C08'], takes=[('code', 3)], pushes=[('code', None)], clauses=[
    ('fired.value.whole-target-matches', '(S0.code.len() >= 3 && crate::push::item::deep_eq(%s, %s)) ==> top(S1.code, 0) == %s' % (_t, _pa, _su)),
    ('fired.value.all-and-only-matches-replaced', '(S0.code.len() >= 3 && !crate::push::item::deep_eq(%s, %s)) ==> crate::push::item::subst_ok(%s, top(S1.code, 0), %s, %s)' % (_t, _pa, _t, _pa, _su))])

# ------------------------------------------------------------------ C18: GRAPH instructions -- operands, footprint, snapshots
def graph_top_only():
    """the graph stack keeps its depth; only the newest graph may change (older snapshots are untouched)"""
    return buf_same('graph') + [
        ('fired.graph.snapshots', 'S1.graph.n() == S0.graph.n() && (forall|i: int| 0 <= i < S0.graph.n() - 1 ==> S1.graph.live()[i] == S0.graph.live()[i])'),
        ('{C18,C10}unfired.graph', 'S0.graph.n() == 0 ==> S1.graph.live() =~= S0.graph.live()')]


def kept(stack, maxpop, maxpush):
    return ('operands.%s' % stack, 'below_kept(S0.%s, S1.%s, %d, %d)' % (stack, stack, maxpop, maxpush))


def untouched_without_graph(stacks):
    return [('{C18,C10}unfired.nograph.%s' % s, 'S0.graph.n() == 0 ==> S1.%s == S0.%s' % (s, s)) for s in stacks]


row('GRAPH.ADD', ['C18'], touches=['graph'], clauses=buf_same('graph') + [
    ('fired.graph', 'S0.graph.n() < S0.graph.cap() ==> S1.graph.n() == S0.graph.n() + 1 && S1.graph.live().drop_last() =~= S0.graph.live()'),
    ('fired.graph.full', 'S0.graph.n() == S0.graph.cap() ==> S1.graph.live() =~= S0.graph.live()')])
row('GRAPH.DUP', ['C18'], touches=['graph'], clauses=buf_same('graph') + [
    ('fired.graph', '(0 < S0.graph.n() < S0.graph.cap()) ==> S1.graph.live() =~= S0.graph.live().push(S0.graph.live().last())'),
    ('fired.graph.full', '!(0 < S0.graph.n() < S0.graph.cap()) ==> S1.graph.live() =~= S0.graph.live()')])
row('GRAPH.STACKDEPTH', ['C18'], pushes=[('int', 'S0.graph.n() as i32')])
row('GRAPH.NODE*ADD', ['C18'], touches=['graph', 'int'], clauses=graph_top_only() + [kept('int', 1, 1)] + untouched_without_graph(['int']))
row('GRAPH.NODE*STATESWITCH', ['C18'], touches=['graph', 'int', 'intvec', 'boolvec'],
    clauses=graph_top_only() + [kept('int', 2, 0), kept('intvec', 1, 0), kept('boolvec', 1, 0)] + untouched_without_graph(['int', 'intvec', 'boolvec']))
def _filter_clauses(fire, g):
    # the state-filter query as a set (HashMap order is unspecified): only ids of nodes in an admitted state, and every such node
    sts = 'top(S0.intvec, 0).values@'
    return [('fired.only-admitted-nodes', '(%s) ==> (S1.intvec.len() == S0.intvec.len() && (forall|i: int| 0 <= i < top(S1.intvec, 0).values@.len() ==> %s.node_int(%s, #[trigger] top(S1.intvec, 0).values@[i])))' % (fire, g, sts)),
            ('fired.every-admitted-node', '(%s) ==> (forall|k: usize| #[trigger] %s.nodes@.contains_key(k) && crate::push::graph::allowed(%s, %s.nodes@[k].sstate()) ==> top(S1.intvec, 0).values@.contains(%s.nodes@[k].sid() as i32))' % (fire, g, sts, g, g))]
row('GRAPH.NODES', ['C18'], touches=['intvec'], clauses=[kept('intvec', 1, 1)] + _filter_clauses('S0.graph.n() >= 1 && S0.intvec.len() >= 1', 'S0.graph.live().last()') + untouched_without_graph(['intvec']))
# NODES*HISTORY reads the snapshot at the requested depth (0 = newest)
_hp = 'top(S0.int, 0)'
row('GRAPH.NODES*HISTORY', ['C18'], touches=['int', 'intvec'], clauses=[kept('int', 1, 0), kept('intvec', 1, 1)]
    + _filter_clauses('S0.int.len() >= 1 && 0 <= %s < S0.graph.n() && S0.intvec.len() >= 1' % _hp, 'S0.graph.live()[S0.graph.n() - 1 - %s]' % _hp)
    + [('{C18,C10}unfired.intvec', 'S0.int.len() == 0 ==> S1.intvec == S0.intvec'),
       # a depth at which there is no snapshot (negative, or at / beyond the number of snapshots) reads nothing: the filter stays where it is
       ('fired.no-such-snapshot', '(S0.int.len() >= 1 && !(0 <= %s < S0.graph.n())) ==> S1.intvec == S0.intvec' % _hp)])
row('GRAPH.NODE*GETSTATE', ['C18'], touches=['graph', 'int'], clauses=graph_top_only() + [kept('int', 1, 1),
    ('fired.graph.readonly', 'S1.graph.live() =~= S0.graph.live()')] + untouched_without_graph(['int']))
row('GRAPH.NODE*HISTORY', ['C18'], touches=['graph', 'int'], clauses=buf_same('graph') + [kept('int', 2, 1),
    ('fired.graph.readonly', 'S1.graph.live() =~= S0.graph.live()')])
# EDGE*HISTORY: position (top), destination (second), origin (third): the weight of the edge in the snapshot `pos` positions below the newest one
_ep = 'top(S0.int, 0)'
_esnap = 'S0.graph.live()[S0.graph.n() - 1 - %s]' % _ep
row('GRAPH.EDGE*HISTORY', ['C18'], touches=['graph', 'int', 'float'], clauses=buf_same('graph') + [kept('int', 3, 0), kept('float', 0, 1),
    ('fired.graph.readonly', 'S1.graph.live() =~= S0.graph.live()'),
    ('fired.negative-position', '(S0.int.len() >= 1 && %s < 0) ==> (S1.int =~= S0.int.drop_last() && S1.float == S0.float)' % _ep),
    ('fired.weight-of-the-snapshot', '(S0.int.len() >= 3 && 0 <= %s < S0.graph.n()) ==> '
     '(match %s.weight_of(top(S0.int, 2) as usize, top(S0.int, 1) as usize) { Some(w) => S1.float =~= S0.float.push(w), None => S1.float == S0.float })' % (_ep, _esnap)),
    ('fired.no-such-snapshot', '(S0.int.len() >= 1 && %s >= S0.graph.n()) ==> S1.float == S0.float' % _ep)])
row('GRAPH.PRINT', ['C18'], touches=['name'], clauses=[kept('name', 0, 1)] + untouched_without_graph(['name']))
row('GRAPH.PRINT*DIFF', ['C18'], touches=['name'], clauses=[kept('name', 0, 1), ('{C18,C10}unfired.name', 'S0.graph.n() < 2 ==> S1.name == S0.name')])
row('GRAPH.NODE*SETSTATE', ['C18'], touches=['graph', 'int'], clauses=graph_top_only() + [kept('int', 2, 0)] + untouched_without_graph(['int']))
row('GRAPH.EDGE*ADD', ['C18'], touches=['graph', 'int', 'float'], clauses=graph_top_only() + [kept('int', 2, 0), kept('float', 1, 0)] + untouched_without_graph(['int', 'float']))
row('GRAPH.EDGE*GETWEIGHT', ['C18'], touches=['graph', 'int', 'float'], clauses=graph_top_only() + [kept('int', 2, 0), kept('float', 0, 1),
    ('fired.graph.readonly', 'S1.graph.live() =~= S0.graph.live()')] + untouched_without_graph(['int', 'float']))
row('GRAPH.EDGE*SETWEIGHT', ['C18'], touches=['graph', 'int', 'float'], clauses=graph_top_only() + [kept('int', 2, 0), kept('float', 1, 0)] + untouched_without_graph(['int', 'float']))
_gq = 'S0.graph.live().last()'
_nid = '(top(S0.int, 0) as usize)'
_sts = 'top(S0.intvec, 0).values@'
_qfire = 'S0.graph.n() >= 1 && S0.intvec.len() >= 1 && S0.int.len() >= 1 && top(S0.int, 0) > 0'
for nm in ['GRAPH.NODE*NEIGHBORS', 'GRAPH.NODE*PREDECESSORS', 'GRAPH.NODE*SUCCESSORS']:
    extra = []
    if nm == 'GRAPH.NODE*PREDECESSORS':
        # exactly the origins of the node's incoming edges whose node exists in an admitted state, in edge-list order
        extra = [('fired.exactly-the-predecessors', '(%s) ==> (S1.intvec.len() == S0.intvec.len() && top(S1.intvec, 0).values@ == '
                  '(if %s.edges@.contains_key(%s) { %s.preds_upto(%s.edges@[%s]@, %s, %s.edges@[%s]@.len()) } else { Seq::<i32>::empty() }))'
                  % (_qfire, _gq, _nid, _gq, _gq, _nid, _sts, _gq, _nid))]
    if nm == 'GRAPH.NODE*NEIGHBORS':
        _P = '(if %s.edges@.contains_key(%s) { %s.preds_upto(%s.edges@[%s]@, %s, %s.edges@[%s]@.len()) } else { Seq::<i32>::empty() })' % (_gq, _nid, _gq, _gq, _nid, _sts, _gq, _nid)
        # the predecessors first (exactly, in edge-list order), then the successors (HashMap order: as a set)
        extra = [('fired.starts-with-the-predecessors', '(%s) ==> (S1.intvec.len() == S0.intvec.len() && top(S1.intvec, 0).values@.len() >= %s.len() && top(S1.intvec, 0).values@.subrange(0, %s.len() as int) == %s)' % (_qfire, _P, _P, _P)),
                 ('fired.then-only-successors', '(%s) ==> (forall|i: int| %s.len() <= i < top(S1.intvec, 0).values@.len() ==> %s.succ_int(%s, %s, #[trigger] top(S1.intvec, 0).values@[i]))' % (_qfire, _P, _gq, _nid, _sts)),
                 ('fired.every-successor', '(%s) ==> (forall|d: usize| #[trigger] %s.is_succ(%s, %s, d) ==> top(S1.intvec, 0).values@.contains(d as i32))' % (_qfire, _gq, _nid, _sts))]
    if nm == 'GRAPH.NODE*SUCCESSORS':
        # HashMap iteration order is unspecified: the result is stated as a set -- only successors, and every successor (ids that fit an INTEGER)
        extra = [('fired.only-successors', '(%s) ==> (S1.intvec.len() == S0.intvec.len() && (forall|i: int| 0 <= i < top(S1.intvec, 0).values@.len() ==> '
                  '%s.succ_int(%s, %s, #[trigger] top(S1.intvec, 0).values@[i])))' % (_qfire, _gq, _nid, _sts)),
                 ('fired.every-successor', '(%s) ==> (forall|d: usize| #[trigger] %s.is_succ(%s, %s, d) ==> top(S1.intvec, 0).values@.contains(d as i32))' % (_qfire, _gq, _nid, _sts))]
    row(nm, ['C18'], touches=['int', 'intvec'], clauses=[kept('int', 1, 0), kept('intvec', 1, 1)] + extra + untouched_without_graph(['int', 'intvec']))
FN_OVERLAYS['graph::graph_node_successors'] = dict(attrs='#[verifier::loop_isolation(false)]\n', loops={0: '''
            invariant seq_i32(&successors).len() == successors@.len(),
                // what vstd knows about HashMap iteration: every pair of the sequence is a pair of the map, and every key of the map occurs
                forall|j: int| 0 <= j < ghost_iter.seq().len() ==> graph.edges@.contains_key(*(#[trigger] ghost_iter.seq()[j]).0) && graph.edges@[*ghost_iter.seq()[j].0] == *ghost_iter.seq()[j].1,
                forall|d: usize| graph.edges@.contains_key(d) ==> exists|j: int| 0 <= j < ghost_iter.seq().len() && *(#[trigger] ghost_iter.seq()[j]).0 == d,
                // only successors so far, and every successor among the destinations already visited
                forall|i: int| 0 <= i < successors@.len() ==> graph.succ_int(node_id as usize, states.values@, #[trigger] successors@[i]),
                forall|j: int| 0 <= j < ghost_iter.index@ ==> (graph.is_succ(node_id as usize, states.values@, *(#[trigger] ghost_iter.seq()[j]).0) ==> successors@.contains(*ghost_iter.seq()[j].0 as i32)),
'''}, proofs={'loop 0 start': '''                            let ghost r0 = successors@;
                            proof {
                                assert(graph.edges@[*k] == *v);
                                assert(v@.len() == v.len());
                                crate::push::graph::lemma_first_from_range(v@, node_id as usize, v@.len());
                            }
''', 'loop 0 end': '''                            proof {
                                let d = *k; let x = d as i32; let nd = node_id as usize; let sts = states.values@;
                                assert(successors@ == r0 || successors@ == r0.push(x));
                                if successors@ != r0 { assert(successors@[r0.len() as int] == x); assert(graph.is_succ(nd, sts, d)); }
                                assert forall|i: int| 0 <= i < successors@.len() implies graph.succ_int(nd, sts, #[trigger] successors@[i]) by {
                                    if i < r0.len() { assert(successors@[i] == r0[i]); } else { assert(graph.is_succ(nd, sts, d) && successors@[i] == d as i32); }
                                }
                                assert forall|j: int| 0 <= j < ghost_iter.index@ + 1 && graph.is_succ(nd, sts, *(#[trigger] ghost_iter.seq()[j]).0) implies successors@.contains(*ghost_iter.seq()[j].0 as i32) by {
                                    if j < ghost_iter.index@ {
                                        let y = *ghost_iter.seq()[j].0 as i32;
                                        assert(r0.contains(y));
                                        let w = choose|w: int| 0 <= w < r0.len() && r0[w] == y;
                                        assert(successors@[w] == y);
                                    } else {
                                        assert(successors@[r0.len() as int] == x);
                                    }
                                }
                            }
'''})
FN_OVERLAYS['graph::graph_node_neighbors'] = dict(attrs='#[verifier::loop_isolation(false)]\n', loops={0: '''
            invariant seq_i32(&neighbors).len() == neighbors@.len(), ghost_iter.seq().len() == incoming_edges@.len(),
                forall|k: int| 0 <= k < incoming_edges@.len() ==> *#[trigger] ghost_iter.seq()[k] == incoming_edges@[k],
                neighbors@ == graph.preds_upto(incoming_edges@, states.values@, ghost_iter.index@ as nat),
''', 1: '''
            invariant seq_i32(&neighbors).len() == neighbors@.len(), neighbors@.len() >= pn.len(), neighbors@.subrange(0, pn.len() as int) == pn,
                forall|j: int| 0 <= j < ghost_iter.seq().len() ==> graph.edges@.contains_key(*(#[trigger] ghost_iter.seq()[j]).0) && graph.edges@[*ghost_iter.seq()[j].0] == *ghost_iter.seq()[j].1,
                forall|d: usize| graph.edges@.contains_key(d) ==> exists|j: int| 0 <= j < ghost_iter.seq().len() && *(#[trigger] ghost_iter.seq()[j]).0 == d,
                forall|i: int| pn.len() <= i < neighbors@.len() ==> graph.succ_int(node_id as usize, states.values@, #[trigger] neighbors@[i]),
                forall|j: int| 0 <= j < ghost_iter.index@ ==> (graph.is_succ(node_id as usize, states.values@, *(#[trigger] ghost_iter.seq()[j]).0) ==> neighbors@.contains(*ghost_iter.seq()[j].0 as i32)),
'''}, proofs={'loop 1 before': '''                        let ghost pn = neighbors@;
''', 'loop 1 start': '''                            let ghost r0 = neighbors@;
                            proof {
                                assert(graph.edges@[*k] == *v);
                                assert(v@.len() == v.len());
                                crate::push::graph::lemma_first_from_range(v@, node_id as usize, v@.len());
                            }
''', 'loop 1 end': '''                            proof {
                                let d = *k; let x = d as i32; let nd = node_id as usize; let sts = states.values@;
                                assert(neighbors@ == r0 || neighbors@ == r0.push(x));
                                if neighbors@ != r0 { assert(neighbors@[r0.len() as int] == x); assert(graph.is_succ(nd, sts, d)); }
                                assert(neighbors@.subrange(0, pn.len() as int) =~= r0.subrange(0, pn.len() as int));
                                assert forall|i: int| pn.len() <= i < neighbors@.len() implies graph.succ_int(nd, sts, #[trigger] neighbors@[i]) by {
                                    if i < r0.len() { assert(neighbors@[i] == r0[i]); } else { assert(graph.is_succ(nd, sts, d) && neighbors@[i] == d as i32); }
                                }
                                assert forall|j: int| 0 <= j < ghost_iter.index@ + 1 && graph.is_succ(nd, sts, *(#[trigger] ghost_iter.seq()[j]).0) implies neighbors@.contains(*ghost_iter.seq()[j].0 as i32) by {
                                    if j < ghost_iter.index@ {
                                        let y = *ghost_iter.seq()[j].0 as i32;
                                        assert(r0.contains(y));
                                        let w = choose|w: int| 0 <= w < r0.len() && r0[w] == y;
                                        assert(neighbors@[w] == y);
                                    } else {
                                        assert(neighbors@[r0.len() as int] == x);
                                    }
                                }
                            }
'''})
FN_OVERLAYS['graph::graph_node_predecessors'] = dict(attrs='#[verifier::loop_isolation(false)]\n', loops={0: '''
            //bind R = let mut (\\w+)(?:\\s*:[^=;]+)? = (?:vec!\\[\\]|Vec::new\\(\\)|Vec::with_capacity\\([^;]*\\));
            //bind IE = if let Some\\((\\w+)\\) = graph\\.edges\\.get\\(
            //bind ST = if let Some\\((\\w+)\\) = push_state\\.int_vector_stack\\.pop\\(\\)
            invariant seq_i32(&$R).len() == $R@.len(), ghost_iter.seq().len() == $IE@.len(),
                forall|k: int| 0 <= k < $IE@.len() ==> *#[trigger] ghost_iter.seq()[k] == $IE@[k],
                $R@ == graph.preds_upto($IE@, $ST.values@, ghost_iter.index@ as nat),
'''})
FN_OVERLAYS['graph::graph_node_state_switch'] = dict(proofs={'body_start': '''        proof {
            if push_state.int_vector_stack@.len() >= 1 { assert(push_state.int_vector_stack@[push_state.int_vector_stack@.len() - 1].values@.len() < 0x7fff_ffff); }
            if push_state.bool_vector_stack@.len() >= 1 { assert(push_state.bool_vector_stack@[push_state.bool_vector_stack@.len() - 1].values@.len() < 0x7fff_ffff); }
        }
'''})

# ------------------------------------------------------------------ C09: the adapter-based vector instructions (bodies reach Verus through the R9 desugaring)
_bv = 'top(S0.boolvec, 0).values@'
_iv = 'top(S0.intvec, 0).values@'
_fv = 'top(S0.floatvec, 0).values@'
V_ = 'crate::push::vector::'
row('BOOLVECTOR.COUNT', ['C09'], fired='(S0.boolvec.len() >= 1)', pushes=[('int', '%scount_true(%s, %s.len()) as i32' % (V_, _bv, _bv))])
row('INTVECTOR.SUM', ['C09'], fired='(S0.intvec.len() >= 1)', pushes=[('int', '%swsum(%s, %s.len())' % (V_, _iv, _iv))])
row('INTVECTOR.MEAN', ['C09'], fired='(S0.intvec.len() >= 1)', pushes=[('float', 'f32_div(i32_to_f32(%swsum(%s, %s.len())), usize_to_f32(%s.len() as usize))' % (V_, _iv, _iv, _iv))])
row('INTVECTOR.BOOLINDEX', ['C09'], takes=[('boolvec', 1)], pushes=[('intvec', None)], clauses=[
    ('fired.value.intvec.0', 'S0.boolvec.len() >= 1 ==> top(S1.intvec, 0).values@ == %strue_idx(%s, %s.len())' % (V_, _bv, _bv))])
row('FLOATVECTOR.*SCALAR', ['C09'], takes=[('float', 1)], touches=['floatvec'], clauses=[
    top_vec_becomes('floatvec', 'Seq::new(%s.len(), |i: int| f32_mul(%s[i], top(S0.float, 0)))' % (_fv, _fv), 'S0.float.len() >= 1 && S0.floatvec.len() >= 1'),
    ('{C09,C10}unfired.floatvec', '!(S0.float.len() >= 1 && S0.floatvec.len() >= 1) ==> S1.floatvec == S0.floatvec')])
FN_OVERLAYS['vector::bool_vector_count'] = dict(loops={0: '''
            //bind V = if let Some\\((\\w+)\\) = push_state\\.bool_vector_stack\\.get\\(0\\)
            invariant ghost_iter.seq().len() == $V.values@.len(), ghost_iter.index@ <= $V.values@.len(),
                forall|k: int| 0 <= k < $V.values@.len() ==> *#[trigger] ghost_iter.seq()[k] == $V.values@[k],
                r9_c == crate::push::vector::count_true($V.values@, ghost_iter.index@ as nat), r9_c <= ghost_iter.index@, $V.values@.len() < 0x7fff_ffff,
'''}, proofs={'loop 0 start': '''            //bind V = if let Some\\((\\w+)\\) = push_state\\.bool_vector_stack\\.get\\(0\\)
            proof { crate::push::vector::lemma_count_true_le($V.values@, (ghost_iter.index@ + 1) as nat); }
'''})
for _p, _stk in [('vector::int_vector_sum', 'int_vector_stack'), ('vector::int_vector_mean', 'int_vector_stack')]:
    FN_OVERLAYS[_p] = dict(loops={0: '''
            //bind V = if let Some\\((\\w+)\\) = push_state\\.%s\\.get\\(0\\)
            invariant ghost_iter.seq().len() == $V.values@.len(), ghost_iter.index@ <= $V.values@.len(),
                forall|k: int| 0 <= k < $V.values@.len() ==> *#[trigger] ghost_iter.seq()[k] == $V.values@[k],
                acc == crate::push::vector::wsum($V.values@, ghost_iter.index@ as nat),
''' % _stk})
FN_OVERLAYS['vector::int_vector_bool_index'] = dict(loops={0: '''
            //bind V = if let Some\\((\\w+)\\) = push_state\\.bool_vector_stack\\.pop\\(\\)
            //bind R = let mut (\\w+)(?:\\s*:[^=;]+)? = (?:vec!\\[\\]|Vec::new\\(\\)|Vec::with_capacity\\([^;]*\\));
            invariant seq_i32(&$R).len() == $R@.len(), $V.values@.len() < 0x7fff_ffff,
                $R@ == crate::push::vector::true_idx($V.values@, ghost_iter.index@ as nat),
'''})
FN_OVERLAYS['vector::float_vector_multiply_scalar'] = dict(loops={0: '''
            //bind FV = if let Some\\((\\w+)\\) = push_state\\.float_vector_stack\\.get_mut\\(0\\)
            invariant $FV.values@.len() == fv0.len(), ghost_iter.seq().len() == fv0.len(),
                forall|k: int| 0 <= k < ghost_iter.index@ ==> #[trigger] $FV.values@[k] == f32_mul(fv0[k], f),
                forall|k: int| ghost_iter.index@ <= k < fv0.len() ==> #[trigger] $FV.values@[k] == fv0[k],
'''}, proofs={'loop 0 before': '''            //bind FV = if let Some\\((\\w+)\\) = push_state\\.float_vector_stack\\.get_mut\\(0\\)
            let ghost fv0 = $FV.values@;
'''})

# FLOATVECTOR.SUM / MEAN: the left-to-right f32 sum (R14), and that sum divided by the length
row('FLOATVECTOR.SUM', ['C09'], fired='(S0.floatvec.len() >= 1)', pushes=[('float', 'fsum(%s, %s.len())' % (_fv, _fv))])
row('FLOATVECTOR.MEAN', ['C09'], fired='(S0.floatvec.len() >= 1)', pushes=[('float', 'f32_div(fsum(%s, %s.len()), usize_to_f32(%s.len() as usize))' % (_fv, _fv, _fv))])
for _p in ['vector::float_vector_sum', 'vector::float_vector_mean']:
    FN_OVERLAYS[_p] = dict(loops={0: '''
            //bind V = if let Some\\((\\w+)\\) = push_state\\.float_vector_stack\\.get\\(0\\)
            invariant ghost_iter.seq().len() == $V.values@.len(), ghost_iter.index@ <= $V.values@.len(),
                forall|k: int| 0 <= k < $V.values@.len() ==> *#[trigger] ghost_iter.seq()[k] == $V.values@[k],
                r14_s == fsum($V.values@, ghost_iter.index@ as nat),
'''})
# INTVECTOR.SORT*ASC / DESC: a sorted permutation of the top vector, in place (std slice::sort: assumed contract T-std + the i32 axiom)
for nm, cmp in [('INTVECTOR.SORT*ASC', '<='), ('INTVECTOR.SORT*DESC', '>=')]:
    row(nm, ['C09'], touches=['intvec'], clauses=[
        ('fired.sorted-permutation', 'S0.intvec.len() >= 1 ==> (S1.intvec.len() == S0.intvec.len() && drop_n(S1.intvec, 1) =~= drop_n(S0.intvec, 1) '
         '&& top(S1.intvec, 0).values@.len() == %s.len() && top(S1.intvec, 0).values@.to_multiset() == %s.to_multiset() '
         '&& (forall|i: int, j: int| 0 <= i < j < %s.len() ==> top(S1.intvec, 0).values@[i] %s top(S1.intvec, 0).values@[j]))' % (_iv, _iv, _iv, cmp)),
        ('{C09,C10}unfired.intvec', 'S0.intvec.len() == 0 ==> S1.intvec == S0.intvec')])
FN_OVERLAYS['vector::int_vector_sort_desc'] = dict(proofs={'body_start': '''        proof {
            if push_state.int_vector_stack@.len() >= 1 {
                let v0 = top(push_state.int_vector_stack@, 0).values@;
                crate::tstd::slice_sorted(v0).lemma_reverse_to_multiset();
            }
        }
'''})

# INTVECTOR.REMOVE: every occurrence of the top INTEGER is removed from the top INTVECTOR, the rest keeps its order (R9g: Vec::retain)
row('INTVECTOR.REMOVE', ['C09'], touches=['intvec', 'int'], clauses=[
    top_vec_becomes('intvec', '%swithout(%s, top(S0.int, 0), %s.len())' % (V_, _iv, _iv), 'S0.intvec.len() >= 1 && S0.int.len() >= 1'),
    ('fired.int', '(S0.intvec.len() >= 1 && S0.int.len() >= 1) ==> S1.int =~= S0.int.drop_last()'),
    ('{C09,C10}unfired.intvec', '!(S0.intvec.len() >= 1 && S0.int.len() >= 1) ==> S1.intvec == S0.intvec'),
    ('{C09,C10}unfired.int', 'S0.intvec.len() == 0 ==> S1.int == S0.int')])
FN_OVERLAYS['vector::int_vector_remove'] = dict(loops={0: '''
            //bind IT = if let Some\\((\\w+)\\) = push_state\\.int_vector_stack\\.get_mut\\(0\\)
            //bind X = if let Some\\((\\w+)\\) = push_state\\.int_stack\\.pop\\(\\)
            invariant r9_j <= r9_v0.len(), r9_k == crate::push::vector::without(r9_v0, $X, r9_j).len(),
                $IT.values@ =~= crate::push::vector::without(r9_v0, $X, r9_j) + r9_v0.subrange(r9_j as int, r9_v0.len() as int),
            ensures $IT.values@ =~= crate::push::vector::without(r9_v0, $X, r9_v0.len()),
            decreases r9_v0.len() - r9_j,
'''}, proofs={'loop 0 before': '''            //bind IT = if let Some\\((\\w+)\\) = push_state\\.int_vector_stack\\.get_mut\\(0\\)
            let ghost r9_v0 = $IT.values@;
            let ghost mut r9_j: nat = 0;
''', 'loop 0 start': '''            //bind IT = if let Some\\((\\w+)\\) = push_state\\.int_vector_stack\\.get_mut\\(0\\)
            //bind X = if let Some\\((\\w+)\\) = push_state\\.int_stack\\.pop\\(\\)
            proof {
                crate::push::vector::lemma_without_len(r9_v0, $X, r9_j);
                assert(r9_j < r9_v0.len());
                assert($IT.values@[r9_k as int] == r9_v0[r9_j as int]);
            }
''', 'loop 0 end': '''            proof { r9_j = r9_j + 1; }
'''})

# BOOLVECTOR / FLOATVECTOR.SORT*ASC / DESC: a permutation of the top vector ordered by the comparator, in place
# (R13: the sort_by call forms are wrappers with assumed contracts; bool: false before true; f32: the uninterpreted total preorder of total_cmp)
for nm, x, le in [('BOOLVECTOR.SORT*ASC', 'boolvec', '(%s ==> %s)'), ('BOOLVECTOR.SORT*DESC', 'boolvec', '(%s ==> %s)'),
                  ('FLOATVECTOR.SORT*ASC', 'floatvec', 'f_total_le(%s, %s)'), ('FLOATVECTOR.SORT*DESC', 'floatvec', 'f_total_le(%s, %s)')]:
    v0 = 'top(S0.%s, 0).values@' % x; v1 = 'top(S1.%s, 0).values@' % x
    a, b = ('%s[i]' % v1, '%s[j]' % v1) if nm.endswith('ASC') else ('%s[j]' % v1, '%s[i]' % v1)
    row(nm, ['C09'], touches=[x], clauses=[
        ('fired.sorted-permutation', 'S0.%s.len() >= 1 ==> (S1.%s.len() == S0.%s.len() && drop_n(S1.%s, 1) =~= drop_n(S0.%s, 1) '
         '&& %s.len() == %s.len() && %s.to_multiset() == %s.to_multiset() && (forall|i: int, j: int| 0 <= i < j < %s.len() ==> %s))'
         % (x, x, x, x, x, v1, v0, v1, v0, v0, le % (a, b))),
        ('{C09,C10}unfired.%s' % x, 'S0.%s.len() == 0 ==> S1.%s == S0.%s' % (x, x, x))])
FN_OVERLAYS['vector::bool_vector_sort_desc'] = dict(proofs={'body_start': '''        proof {
            if push_state.bool_vector_stack@.len() >= 1 { crate::spec::sorted_bools(top(push_state.bool_vector_stack@, 0).values@).lemma_reverse_to_multiset(); }
        }
'''})
FN_OVERLAYS['vector::float_vector_sort_desc'] = dict(proofs={'body_start': '''        proof {
            if push_state.float_vector_stack@.len() >= 1 { crate::spec::sorted_floats(top(push_state.float_vector_stack@, 0).values@).lemma_reverse_to_multiset(); }
        }
'''})

# ------------------------------------------------------------------ C13 / C12: RAND instructions (values: relative to the RNG contract)
row('BOOLEAN.RAND', ['C13'], pushes=[('bool', None)])
row('INTEGER.RAND', ['C13'], fired='(S0.config.min_random_integer < S0.config.max_random_integer)',
    pushes=[('int', None)], clauses=[('fired.value.int.0', '(S0.config.min_random_integer < S0.config.max_random_integer) ==> '
                                      'S0.config.min_random_integer <= top(S1.int, 0) < S0.config.max_random_integer')])
row('FLOAT.RAND', ['C13'], fired='f32_lt(S0.config.min_random_float, S0.config.max_random_float)', pushes=[('float', None)],
    clauses=[('fired.value.float.0', 'f32_lt(S0.config.min_random_float, S0.config.max_random_float) ==> '
              'f32_le(S0.config.min_random_float, top(S1.float, 0)) && f32_lt(top(S1.float, 0), S0.config.max_random_float)')])
row('NAME.RAND', ['C13'], pushes=[('name', None)])
# "returns a currently bound name whenever one exists": existing_random_name collects keys().cloned() -- outside Verus (not decided)
row('NAME.RANDBOUNDNAME', ['C13'], pushes=[('name', None)], clauses=[
    ('fired.value.a-currently-bound-name', 'S0.bindings.len() > 0 ==> S0.bindings.contains_key(top(S1.name, 0))')])
# never more points than |n| nor than max-points-in-random-expressions
_lim = 'sat_abs(top(S0.int, 0))'
_cfg = 'sat_abs(S0.config.max_points_in_random_expressions)'
row('CODE.RAND', ['C12'], takes=[('int', 1)], touches=['code'], clauses=[kept('code', 0, 1),
    ('fired.value.code.bound', '(S0.int.len() >= 1 && S1.code.len() == S0.code.len() + 1) ==> crate::push::item::points(top(S1.code, 0)) <= %s && crate::push::item::points(top(S1.code, 0)) <= %s' % (_lim, _cfg)),
    ('{C12,C10}unfired.code', 'S0.int.len() == 0 ==> S1.code == S0.code')])
_bsz, _bsp = 'top(S0.int, 0)', 'top(S0.float, 0)'
_bvalid = '(%s >= 0 && f32_ge(%s, 0.0f32) && f32_le(%s, 1.0f32))' % (_bsz, _bsp, _bsp)
row('BOOLVECTOR.RAND', ['C13'], takes=[('int', 1), ('float', 1)], touches=['boolvec'], clauses=[kept('boolvec', 0, 1),
    ('fired.length-and-bit-count', '(S0.int.len() >= 1 && S0.float.len() >= 1 && %s) ==> (S1.boolvec.len() == S0.boolvec.len() + 1 && top(S1.boolvec, 0).values@.len() == %s '
     '&& crate::push::random::count_eq(top(S1.boolvec, 0).values@, !f32_gt(%s, 0.5f32)) == f32_to_i32_spec(f32_mul(crate::push::random::sparse_share(%s), i32_to_f32(%s))))' % (_bvalid, _bsz, _bsp, _bsp, _bsz)),
    ('fired.invalid-parameters-push-nothing', '(S0.int.len() >= 1 && S0.float.len() >= 1 && !%s) ==> S1.boolvec == S0.boolvec' % _bvalid),
    ('{C13,C10}unfired.boolvec', '!(S0.int.len() >= 1 && S0.float.len() >= 1) ==> S1.boolvec == S0.boolvec')])
# INTVECTOR.RAND: program text `min max size INTVECTOR.RAND` (size on top, then max, then min) -- pinned by the repository's test
_isz, _imax, _imin = 'top(S0.int, 0)', 'top(S0.int, 1)', 'top(S0.int, 2)'
row('INTVECTOR.RAND', ['C13'], takes=[('int', 3)], touches=['intvec'], clauses=[kept('intvec', 0, 1),
    ('fired.length-and-range', '(S0.int.len() >= 3 && %s >= 0 && %s < %s) ==> (S1.intvec.len() == S0.intvec.len() + 1 && top(S1.intvec, 0).values@.len() == %s '
     '&& (forall|i: int| 0 <= i < %s ==> %s <= #[trigger] top(S1.intvec, 0).values@[i] < %s))' % (_isz, _imin, _imax, _isz, _isz, _imin, _imax)),
    ('fired.invalid-parameters-push-nothing', '(S0.int.len() >= 3 && !(%s >= 0 && %s < %s)) ==> S1.intvec == S0.intvec' % (_isz, _imin, _imax)),
    ('{C13,C10}unfired.intvec', '!(S0.int.len() >= 3) ==> S1.intvec == S0.intvec')])
# FLOATVECTOR.RAND: mean = top FLOAT, standard deviation = second FLOAT
_fsz, _fmean, _fstd = 'top(S0.int, 0)', 'top(S0.float, 0)', 'top(S0.float, 1)'
_fvalid = '(%s >= 0 && f32_ge(%s, 0.0f32) && f_is_finite(%s))' % (_fsz, _fstd, _fstd)
row('FLOATVECTOR.RAND', ['C13'], takes=[('int', 1), ('float', 2)], touches=['floatvec'], clauses=[kept('floatvec', 0, 1),
    ('fired.length', '(S0.int.len() >= 1 && S0.float.len() >= 2 && %s) ==> (S1.floatvec.len() == S0.floatvec.len() + 1 && top(S1.floatvec, 0).values@.len() == %s)' % (_fvalid, _fsz)),
    ('fired.invalid-parameters-push-nothing', '(S0.int.len() >= 1 && S0.float.len() >= 2 && !%s) ==> S1.floatvec == S0.floatvec' % _fvalid),
    ('{C13,C10}unfired.floatvec', '!(S0.int.len() >= 1 && S0.float.len() >= 2) ==> S1.floatvec == S0.floatvec')])
FN_OVERLAYS['code::code_position'] = dict(proofs={'body_start': '''        proof {
            if push_state.code_stack@.len() >= 2 {
                crate::push::item::lemma_first_pos_is_a_match(top(push_state.code_stack@, 0), top(push_state.code_stack@, 1));
                assert(crate::push::item::points(push_state.code_stack@[push_state.code_stack@.len() - 1]) < 0x7fff_ffff);
            }
        }
'''})

for _p in ['code::code_contains', 'code::code_member']:
    FN_OVERLAYS[_p] = dict(proofs={'body_start': '''        proof {
            if push_state.code_stack@.len() >= 2 {
                assert(crate::push::item::points(push_state.code_stack@[push_state.code_stack@.len() - 1]) < 0x7fff_ffff);
                assert(crate::push::item::points(push_state.code_stack@[push_state.code_stack@.len() - 2]) < 0x7fff_ffff);
            }
        }
'''})

# the envelope's per-item point bound, instantiated for every CODE item (LIST.*VAL / NEIGHBOR*VALS address records by position)
_code_bound = '''        proof {
            assert forall|i: int| 0 <= i < push_state.code_stack@.len() implies crate::push::item::points(#[trigger] push_state.code_stack@[i]) < 0x7fff_ffff by {}
        }
'''
for _p in ['list::list_bval', 'list::list_ival', 'list::list_fval', 'list::list_neighbor_bvals', 'list::list_neighbor_ivals', 'list::list_neighbor_fvals']:
    FN_OVERLAYS.setdefault(_p, {}).setdefault('proofs', {})['body_start'] = _code_bound
for _p in ['list::list_neighbor_bvals', 'list::list_neighbor_ivals', 'list::list_neighbor_fvals']:
    FN_OVERLAYS[_p]['attrs'] = '#[verifier::loop_isolation(false)]\n'

FN_OVERLAYS['graph::graph_node_state_switch']['attrs'] = '#[verifier::loop_isolation(false)]\n'
FN_OVERLAYS['code::code_nth'] = dict(proofs={'body_start': '''        proof {
            if push_state.code_stack@.len() >= 1 {
                crate::push::item::lemma_points_gt_len(top(push_state.code_stack@, 0));
                assert(crate::push::item::points(push_state.code_stack@[push_state.code_stack@.len() - 1]) < 0x7fff_ffff);
            }
        }
'''})

# ------------------------------------------------------------------ C15: allocation bounded by the operands an instruction consumes, not by their magnitude
# bound.alloc: a vector created by a step is no longer than (total length of the vector operands consumed) + (number of scalar operands consumed) + 1
def add_alloc_bound(name, x, vec_operands, n_scalar, cond=None):
    r = ROWS[name]
    bound = ' + '.join(['%s.len()' % v for v in vec_operands] + ['%d' % (n_scalar + 1)])
    pre = '(S1.%s.len() >= 1 && S1.%s.len() > S0.%s.len() - %d)' % (x, x, x, len(vec_operands))
    if cond: pre = '(%s && %s)' % (pre, cond)
    r.clauses.append(('{C15}bound.alloc', '%s ==> top(S1.%s, 0).values@.len() <= %s' % (pre, x, bound)))
    if 'C15' not in r.props: r.props.append('C15')


for T, (x, e, sid, one, zero) in VEC.items():
    for nm in ['ONES', 'ZEROS']:
        add_alloc_bound(T + '.' + nm, x, [], 1, 'S0.int.len() >= 1 && top(S0.int, 0) > 0')
for nm, x, path, V, op in ELEMENTWISE:
    add_alloc_bound(nm, x, ['top(S0.%s, 1).values@' % x, 'top(S0.%s, 0).values@' % x], 1, 'S0.%s.len() >= 2 && S0.int.len() >= 1' % x)
add_alloc_bound('FLOATVECTOR./', 'floatvec', ['top(S0.floatvec, 1).values@', 'top(S0.floatvec, 0).values@'], 1, 'S0.floatvec.len() >= 2 && S0.int.len() >= 1')
add_alloc_bound('BOOLVECTOR.NOT', 'boolvec', ['top(S0.boolvec, 0).values@'], 1, 'S0.boolvec.len() >= 1 && S0.int.len() >= 1')
for T in ['INTVECTOR', 'FLOATVECTOR']:
    x = VEC[T][0]
    r = ROWS[T + '.APPEND']
    r.clauses.append(('{C15}bound.alloc', '(S0.%s.len() >= 1 && S1.%s.len() >= 1) ==> top(S1.%s, 0).values@.len() <= top(S0.%s, 0).values@.len() + 1' % (x, x, x, x)))
    r.props.append('C15')
ROWS['INTVECTOR.FROMINT'].clauses.append(('{C15}bound.alloc', 'S0.int.len() >= 1 ==> top(S1.intvec, 0).values@.len() <= S0.int.len()'))
ROWS['INTVECTOR.SET*INSERT'].clauses.append(('{C15}bound.alloc', '(S0.intvec.len() >= 1 && S1.intvec.len() >= 1) ==> top(S1.intvec, 0).values@.len() <= top(S0.intvec, 0).values@.len() + 1'))
ROWS['INTVECTOR.SET*INSERT'].props.append('C15')
# RAND vectors: the length is the size operand (random_* contracts): bounded by operand magnitude only
for nm, x, need in [('BOOLVECTOR.RAND', 'boolvec', 'S0.int.len() >= 1 && S0.float.len() >= 1'), ('INTVECTOR.RAND', 'intvec', 'S0.int.len() >= 3'),
                    ('FLOATVECTOR.RAND', 'floatvec', 'S0.int.len() >= 1 && S0.float.len() >= 2')]:
    r = ROWS[nm]
    r.clauses.append(('{C15}bound.alloc', '(%s && S1.%s.len() == S0.%s.len() + 1) ==> top(S1.%s, 0).values@.len() <= 4' % (need, x, x, x)))
    r.props.append('C15')
# "no program can make an item on the CODE or EXEC stack grow beyond the configured maximum number of points in a program":
# an instruction that builds a new item from its operands must not create one with more points than max_points_in_program,
# unless it is no bigger than an operand it was built from.  The limit is consulted nowhere in the repository: one known finding per instruction.
_lim = 'S0.config.max_points_in_program as int'
def add_points_bound(name, fired, result, operands):
    alts = ' || '.join(['%s(%s) <= %s' % (PTS, result, _lim)] + ['%s(%s) <= %s(%s)' % (PTS, result, PTS, o) for o in operands])
    ROWS[name].clauses.append(('{C15}bound.points', '(%s) ==> (%s)' % (fired, alts)))
for _nm in ['CODE.LIST', 'CODE.APPEND', 'CODE.CONS', 'CODE.INSERT']:
    add_points_bound(_nm, 'S0.code.len() >= 2' + (' && S0.int.len() >= 1' if _nm == 'CODE.INSERT' else ''), 'top(S1.code, 0)', ['top(S0.code, 0)', 'top(S0.code, 1)'])
add_points_bound('CODE.SUBST', 'S0.code.len() >= 3', 'top(S1.code, 0)', ['top(S0.code, 0)', 'top(S0.code, 1)', 'top(S0.code, 2)'])
add_points_bound('EXEC.S', 'S0.exec.len() >= 3', 'S1.exec[S0.exec.len() - 3]', [e0, e1, e2])
add_points_bound('EXEC.Y', 'S0.exec.len() >= 1', 'top(S1.exec, 1)', [e0])
# NEIGHBOR*: IDS pushes one element per neighbour (up to the size OPERAND): bounded by operand magnitude only -> known finding;
# *VALS push one value per neighbour that addresses an existing CODE item: at most CODE-stack-depth many (the neighbourhood itself is still computed)
ROWS['LIST.NEIGHBOR*IDS'].clauses.append(('{C15}bound.alloc', '(S0.int.len() >= 3 && S0.float.len() >= 1 && S1.intvec.len() == S0.intvec.len() + 1) ==> top(S1.intvec, 0).values@.len() <= 5'))
ROWS['LIST.NEIGHBOR*IDS'].props.append('C15')
for nm, st in [('LIST.NEIGHBOR*BVALS', 'boolvec'), ('LIST.NEIGHBOR*IVALS', 'intvec'), ('LIST.NEIGHBOR*FVALS', 'floatvec')]:
    ROWS[nm].clauses.append(('{C15}bound.alloc', '(S0.int.len() >= 4 && S0.float.len() >= 1 && S1.%s.len() == S0.%s.len() + 1) ==> top(S1.%s, 0).values@.len() <= S0.code.len()' % (st, st, st)))
    ROWS[nm].props.append('C15')
FN_OVERLAYS['graph::graph_node_state_switch']['loops'] = {0: '            invariant graph.wf(),\n'}

# ---- C18: value clauses on top of the Graph model (state_of, nodes@, edges@) ----
_g0 = 'S0.graph.live().last()'
_g1 = 'S1.graph.live().last()'
ROWS['GRAPH.NODE*ADD'].clauses += [
    ('fired.int-shape', '(S0.graph.n() >= 1 && S0.int.len() >= 1) ==> S1.int.len() == S0.int.len() && drop_n(S1.int, 1) =~= drop_n(S0.int, 1)'),
    ('fired.edges-kept', '(S0.graph.n() >= 1 && S0.int.len() >= 1) ==> %s.edges@ == %s.edges@' % (_g1, _g0)),
    # (that a node with the popped state is added under the pushed id is Graph::add_node's own contract; at the row level the
    #  witness-free part is stated: no node is lost, and any node that differs from before carries the popped state)
    ('fired.no-node-lost', '(S0.graph.n() >= 1 && S0.int.len() >= 1) ==> (forall|k: usize| (#[trigger] %s.nodes@.contains_key(k)) ==> %s.nodes@.contains_key(k) '
     '&& (%s.nodes@[k] == %s.nodes@[k] || %s.nodes@[k].sstate() == top(S0.int, 0)))' % (_g0, _g1, _g1, _g0, _g1))]
_id = 'top(S0.int, 0)'
ROWS['GRAPH.NODE*GETSTATE'].clauses += [
    ('fired.state-pushed', '(S0.graph.n() >= 1 && S0.int.len() >= 1) ==> S1.int =~= '
     '(if %s > 0 && %s.state_of(%s as usize).is_some() { S0.int.drop_last().push(%s.state_of(%s as usize).unwrap()) } else { S0.int.drop_last() })' % (_id, _g0, _id, _g0, _id))]
# HISTORY: position (top) and id (second); the snapshot `pos` positions below the newest one is read
_pos = 'top(S0.int, 0)'
_hid = 'top(S0.int, 1)'
_snap = 'S0.graph.live()[S0.graph.n() - 1 - %s]' % _pos
ROWS['GRAPH.NODE*HISTORY'].clauses += [
    ('fired.negative-position', '(S0.int.len() >= 1 && %s < 0) ==> S1.int =~= S0.int.drop_last()' % _pos),
    ('fired.state-pushed', '(S0.int.len() >= 2 && %s >= 0) ==> S1.int =~= '
     '(if %s < S0.graph.n() && %s >= 0 && %s.state_of(%s as usize).is_some() { drop_n(S0.int, 2).push(%s.state_of(%s as usize).unwrap()) } else { drop_n(S0.int, 2) })'
     % (_pos, _pos, _hid, _snap, _hid, _snap, _hid))]
# SETSTATE: new state = top, id = second
_st = 'top(S0.int, 0)'
_sid = 'top(S0.int, 1)'
ROWS['GRAPH.NODE*SETSTATE'].clauses += [
    ('fired.state-set', '(S0.graph.n() >= 1 && S0.int.len() >= 2 && %s > 0 && %s.nodes@.contains_key(%s as usize)) ==> '
     '%s.state_of(%s as usize) == Some(%s) && %s.nodes@.remove(%s as usize) == %s.nodes@.remove(%s as usize) && %s.edges@ == %s.edges@'
     % (_sid, _g0, _sid, _g1, _sid, _st, _g1, _sid, _g0, _sid, _g1, _g0)),
    ('fired.stale-id', '(S0.graph.n() >= 1 && S0.int.len() >= 2 && !(%s > 0 && %s.nodes@.contains_key(%s as usize))) ==> %s.nodes@ == %s.nodes@ && %s.edges@ == %s.edges@'
     % (_sid, _g0, _sid, _g1, _g0, _g1, _g0))]
# EDGE*ADD: weight (FLOAT), origin = second integer, destination = top integer
_o = 'top(S0.int, 1) as usize'
_d = 'top(S0.int, 0) as usize'
ROWS['GRAPH.EDGE*ADD'].clauses += [
    ('fired.edge-added', '(S0.graph.n() >= 1 && S0.float.len() >= 1 && S0.int.len() >= 2) ==> %s.nodes@ == %s.nodes@ && %s.wf() '
     '&& %s.edges@.remove(%s) == %s.edges@.remove(%s) '
     '&& ((%s.nodes@.contains_key(%s) && %s.nodes@.contains_key(%s)) ==> %s.edges@.contains_key(%s) '
     '&& (exists|i: int| 0 <= i < %s.edges@[%s]@.len() && (#[trigger] %s.edges@[%s]@[i]).sorigin() == %s)) '
     '&& (!(%s.nodes@.contains_key(%s) && %s.nodes@.contains_key(%s)) ==> %s.edges@ == %s.edges@)'
     % (_g1, _g0, _g1, _g1, _d, _g0, _d, _g0, _o, _g0, _d, _g1, _d, _g1, _d, _g1, _d, _o, _g0, _o, _g0, _d, _g1, _g0))]

_ids_ok = 'true'     # ids are `as usize` of INTEGERs, negative ones included: the specification uses the same cast as the code (seed C18-7)
ROWS['GRAPH.EDGE*GETWEIGHT'].clauses += [
    ('fired.weight-pushed', '(S0.graph.n() >= 1 && S0.int.len() >= 2 && %s) ==> (match %s.weight_of(%s, %s) { Some(w) => S1.float =~= S0.float.push(w), None => S1.float == S0.float })' % (_ids_ok, _g0, _o, _d))]
ROWS['GRAPH.EDGE*SETWEIGHT'].clauses += [
    ('fired.weight-set', '(S0.graph.n() >= 1 && S0.float.len() >= 1 && S0.int.len() >= 2 && %s) ==> %s.nodes@ == %s.nodes@ && %s.wf() && %s.edges@.remove(%s) == %s.edges@.remove(%s) '
     '&& (%s.weight_of(%s, %s).is_some() ==> %s.weight_of(%s, %s) == Some(top(S0.float, 0))) && (%s.weight_of(%s, %s).is_none() ==> %s.edges@ == %s.edges@)'
     % (_ids_ok, _g1, _g0, _g1, _g1, _d, _g0, _d, _g0, _o, _d, _g1, _o, _d, _g0, _o, _d, _g1, _g0))]

# FLOATVECTOR.SINE: amplitude A (top), angle velocity x (second), phase phi (third) from FLOAT, length from INTEGER (negative = 0)
_A, _x, _phi, _n = 'top(S0.float, 0)', 'top(S0.float, 1)', 'top(S0.float, 2)', 'top(S0.int, 0)'
row('FLOATVECTOR.SINE', ['C09', 'C15'], takes=[('float', 3), ('int', 1)], pushes=[('floatvec', None)], clauses=[
    ('fired.value.floatvec.0', '(S0.float.len() >= 3 && S0.int.len() >= 1) ==> top(S1.floatvec, 0).values@ =~= '
     'Seq::new((if %s > 0 { %s as nat } else { 0nat }), |i: int| sine_elem(%s, %s, %s, i as usize))' % (_n, _n, _A, _x, _phi)),
    ('{C15}bound.alloc', '(S0.float.len() >= 3 && S0.int.len() >= 1) ==> top(S1.floatvec, 0).values@.len() <= 5')])
FN_OVERLAYS['vector::float_vector_sine'] = dict(loops={0: '''            //bind V = let mut (\\w+)(?:\\s*:[^=;]+)? = (?:vec!\\[\\]|Vec::new\\(\\)|Vec::with_capacity\\([^;]*\\));
            //bind P = if let Some\\((\\w+)\\) = push_state\\.float_stack\\.pop_vec\\(3\\)
            invariant
                $P@.len() == 3, seq_f32(&$V).len() == ghost_iter.index@, $V@.len() == ghost_iter.index@,
                forall|k: int| 0 <= k < ghost_iter.index@ ==> #[trigger] $V@[k] == sine_elem($P@[2], $P@[1], $P@[0], k as usize),
'''})

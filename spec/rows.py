"""The instruction table (DESIGN 3.1): one Row per registered instruction NAME.

Right-hand sides come from the property statements, the `///` doc comment of the instruction and
the README -- not from the function bodies.  Expressions are Verus spec expressions over
S0.<stack> (state before) and S1.<stack> (state after); stacks are sequences, bottom first;
top(s, i) is the item at position i from the top.
"""
import os, sys
sys.path.insert(0, os.path.join(os.path.dirname(os.path.abspath(__file__)), '..', 'tools'))
from gen import Row

ROWS = {}


def row(name, props, **kw):
    assert name not in ROWS, name
    ROWS[name] = Row(name, props, **kw)


A = lambda s: 'top(S0.%s, 1)' % s     # second item = left operand
B = lambda s: 'top(S0.%s, 0)' % s     # top item    = right operand
X = lambda s: 'top(S0.%s, 0)' % s

# ------------------------------------------------------------------ C04: INTEGER
ai, bi = A('int'), B('int')
row('INTEGER.+', ['C04'], takes=[('int', 2)], pushes=[('int', '%s + %s' % (ai, bi), 'in_i32(%s + %s)' % (ai, bi))])
row('INTEGER.-', ['C04'], takes=[('int', 2)], pushes=[('int', '%s - %s' % (ai, bi), 'in_i32(%s - %s)' % (ai, bi))])
row('INTEGER.*', ['C04'], takes=[('int', 2)], pushes=[('int', '%s * %s' % (ai, bi), 'in_i32(%s * %s)' % (ai, bi))])
# quotient / remainder as Rust's (and the documentation's "second item divided by the top item") truncated
# division; a zero divisor yields no result.  MIN / -1 is not representable: any in-type value.
row('INTEGER./', ['C04'], takes=[('int', 2)], guard='%s != 0' % bi,
    pushes=[('int', 'trunc_div(%s as int, %s as int)' % (ai, bi), 'in_i32(trunc_div(%s as int, %s as int))' % (ai, bi))])
row('INTEGER.%', ['C04'], takes=[('int', 2)], guard='%s != 0' % bi,
    pushes=[('int', 'trunc_rem(%s as int, %s as int)' % (ai, bi), '!(%s == i32::MIN && %s == -1)' % (ai, bi))])
row('INTEGER.<', ['C04'], takes=[('int', 2)], pushes=[('bool', '%s < %s' % (ai, bi))])
row('INTEGER.=', ['C04'], takes=[('int', 2)], pushes=[('bool', '%s == %s' % (ai, bi))])
row('INTEGER.>', ['C04'], takes=[('int', 2)], pushes=[('bool', '%s > %s' % (ai, bi))])
row('INTEGER.ABS', ['C04'], takes=[('int', 1)],
    pushes=[('int', 'if %s < 0 { -(%s as int) } else { %s as int }' % (bi, bi, bi), '%s != i32::MIN' % bi)])
row('INTEGER.MAX', ['C04'], takes=[('int', 2)], pushes=[('int', 'if %s >= %s { %s } else { %s }' % (ai, bi, ai, bi))])
row('INTEGER.MIN', ['C04'], takes=[('int', 2)], pushes=[('int', 'if %s <= %s { %s } else { %s }' % (ai, bi, ai, bi))])
row('INTEGER.FROMBOOLEAN', ['C04'], takes=[('bool', 1)], pushes=[('int', 'if %s { 1i32 } else { 0i32 }' % X('bool'))])
# truncation; out of range or NaN: any in-type value (Rust's saturating cast), shapes as documented
row('INTEGER.FROMFLOAT', ['C04'], takes=[('float', 1)], pushes=[('int', None)])
row('INTEGER.ID', ['C04'], pushes=[('int', '9i32')])

# ------------------------------------------------------------------ C04: BOOLEAN
ab, bb = A('bool'), B('bool')
row('BOOLEAN.=', ['C04'], takes=[('bool', 2)], pushes=[('bool', '%s == %s' % (ab, bb))])
row('BOOLEAN.AND', ['C04'], takes=[('bool', 2)], pushes=[('bool', '%s && %s' % (ab, bb))])
row('BOOLEAN.OR', ['C04'], takes=[('bool', 2)], pushes=[('bool', '%s || %s' % (ab, bb))])
row('BOOLEAN.NOT', ['C04'], takes=[('bool', 1)], pushes=[('bool', '!%s' % bb)])
row('BOOLEAN.ID', ['C04'], pushes=[('int', '1i32')])
# "Pushes FALSE if the top FLOAT is 0.0, or TRUE otherwise" / "... INTEGER is 0 ...".  The doc does not say
# whether the operand is consumed: at most one item may leave the operand stack.
row('BOOLEAN.FROMFLOAT', ['C04'], fired='(S0.float.len() >= 1)', touches=['float'], pushes=[('bool', '!f32_eq(%s, 0.0f32)' % X('float'))],
    clauses=[('fired.operand.float', 'shrunk(S0.float, S1.float, 1)')])
row('BOOLEAN.FROMINTEGER', ['C04'], fired='(S0.int.len() >= 1)', touches=['int'], pushes=[('bool', '%s != 0' % X('int'))],
    clauses=[('fired.operand.int', 'shrunk(S0.int, S1.int, 1)')])

# ------------------------------------------------------------------ C04: FLOAT
af, bf = A('float'), B('float')
for nm, op in [('FLOAT.+', 'f32_add'), ('FLOAT.-', 'f32_sub'), ('FLOAT.*', 'f32_mul')]:
    row(nm, ['C04'], takes=[('float', 2)], pushes=[('float', '%s(%s, %s)' % (op, af, bf))])
# "If the top item is zero this acts as a NOOP" (zero in the IEEE sense: 0.0 and -0.0)
row('FLOAT./', ['C04'], takes=[('float', 2)], guard='!f32_eq(%s, 0.0f32)' % bf, pushes=[('float', 'f32_div(%s, %s)' % (af, bf))])
row('FLOAT.%', ['C04'], takes=[('float', 2)], guard='!f32_eq(%s, 0.0f32)' % bf, pushes=[('float', 'f32_rem(%s, %s)' % (af, bf))])
row('FLOAT.<', ['C04'], takes=[('float', 2)], pushes=[('bool', 'f32_lt(%s, %s)' % (af, bf))])
row('FLOAT.>', ['C04'], takes=[('float', 2)], pushes=[('bool', 'f32_gt(%s, %s)' % (af, bf))])
row('FLOAT.=', ['C04'], takes=[('float', 2)], pushes=[('bool', 'f32_eq(%s, %s)' % (af, bf))])
for nm, fn in [('FLOAT.SIN', 'f_sin'), ('FLOAT.COS', 'f_cos'), ('FLOAT.TAN', 'f_tan'), ('FLOAT.EXP', 'f_exp')]:
    row(nm, ['C04'], takes=[('float', 1)], pushes=[('float', '%s(%s)' % (fn, bf))])
# the result is one of the two operands, and the other one does not compare greater (less); with a NaN operand
# either operand is acceptable.  Which operand is decided bit-precisely by the Kani harness (thorough tier).
for nm in ['FLOAT.MAX', 'FLOAT.MIN']:
    row(nm, ['C04'], takes=[('float', 2)], pushes=[('float', None)],
        clauses=[('fired.value.float.0', 'S0.float.len() >= 2 ==> (top(S1.float, 0) == %s || top(S1.float, 0) == %s)' % (af, bf))])
row('FLOAT.FROMBOOLEAN', ['C04'], takes=[('bool', 1)], pushes=[('float', 'if %s { 1.0f32 } else { 0.0f32 }' % X('bool'))])
row('FLOAT.FROMINTEGER', ['C04'], takes=[('int', 1)], pushes=[('float', None)])
row('FLOAT.ID', ['C04'], pushes=[('int', '5i32')])

# ------------------------------------------------------------------ C04: NAME
an, bn = A('name'), B('name')
row('NAME.=', ['C04'], takes=[('name', 2)], pushes=[('bool', '%s@ == %s@' % (an, bn))])
# concatenation, the top item appended: the result begins with the second item and ends with the top item
row('NAME.CAT', ['C04'], takes=[('name', 2)], pushes=[('name', None)],
    clauses=[('fired.value.name.0', 'S0.name.len() >= 2 ==> ({ let r = top(S1.name, 0)@; let a = %s@; let b = %s@; '
              'r.len() >= a.len() + b.len() && r.subrange(0, a.len() as int) =~= a && r.subrange(r.len() - b.len(), r.len() as int) =~= b })' % (an, bn))])
row('NAME.ID', ['C04'], pushes=[('int', '11i32')])

#!/usr/bin/env python3
"""One-off helper: find the functions Verus cannot translate and propose `@@ external` lines.
Runs `verus --no-verify` repeatedly, mapping each error span to the enclosing unit."""
import sys, os, json
sys.path.insert(0, os.path.dirname(os.path.abspath(__file__)))
import gen, vrun

spec_dir = os.path.join(os.path.dirname(os.path.abspath(__file__)), '..', 'spec')
out = '/tmp/vx/boot.rs'
added = {}
for rnd in range(40):
    sp = gen.Spec()
    for f in sorted(os.listdir(spec_dir)):
        if f.endswith('.vspec'): sp.load(os.path.join(spec_dir, f))
    for p, why in added.items(): sp.external[p] = why
    pre = [os.path.join(spec_dir, f) for f in sorted(os.listdir(spec_dir)) if f.endswith('.rs')]
    r = gen.assemble('/repo', sp, opts=dict(prelude_files=pre))
    open(out, 'w').write(r['text'])
    v = vrun.run_verus(out, ['--no-verify'])
    errs = [d for d in v['diags'] if d.get('level') == 'error' and d.get('spans')]
    if not errs:
        print('round', rnd, 'no span errors; rc', v['rc'])
        for l in v['stderr_other'][:6]: print('  |', l[:200])
        break
    new = 0
    for d in errs:
        s = vrun.primary_span(d); ln = s['line_start']
        u = [u for u in r['units'] if u.gen_lo and u.gen_lo <= ln <= u.gen_hi]
        if not u:
            print('NO UNIT for', d['message'][:150], '@', ln, s['text'][0]['text'][:100] if s['text'] else ''); continue
        u = u[-1]
        if u.path not in added and u.kind == 'verified':
            added[u.path] = d['message'].split('\n')[0][:110]; new += 1
    print('round', rnd, 'errors', len(errs), 'new external', new)
    if not new: 
        for d in errs[:10]:
            s = vrun.primary_span(d); print('  stuck:', d['message'][:200], '@', s['line_start'])
        break
for p, why in sorted(added.items()):
    print('@@ external %s : %s' % (p, why))

#!/usr/bin/env python3
"""./check <PROPERTY> [quick|thorough]   |   ./check --replay <file>

Decides one property from the shared Verus run (engine.build) and, in the thorough tier, the
property's Kani harnesses.  Exit 0: every obligation of the property was discharged (known
findings are printed as KNOWN-FINDING lines); exit 1: `VIOLATION property=<id> replay=<path>`;
exit 2: the machinery could not decide (tool error, lost anchor, rlimit) -- never an alarm.
"""
import os, sys, re, json, time, fnmatch, subprocess
HERE = os.path.dirname(os.path.abspath(__file__))
sys.path.insert(0, HERE)
import engine

VERIF = os.path.dirname(HERE)
EVID = os.environ.get('VERIF_EVIDENCE_DIR') or os.path.join(VERIF, 'evidence')
REPLAYS = os.environ.get('VERIF_REPLAYS') or os.path.join(VERIF, 'replays')
KNOWN = os.path.join(VERIF, 'known_findings.json')


def load_props():
    import importlib.util
    s = importlib.util.spec_from_file_location('properties', os.path.join(VERIF, 'spec', 'properties.py'))
    m = importlib.util.module_from_spec(s); s.loader.exec_module(m)
    return {k: v for k, v in m.PROPS.items() if re.match(r'^C\d\d$', k)}


def labels_props(label):
    """property ids named in a clause label `[C04,C10|NAME|kind]` or `[C16.pop.present]`"""
    if not label: return set()
    head = re.split(r'[|.]', label, 1)[0]
    return set(re.findall(r'C\d\d', head))


def unit_matches(u, sel):
    """sel: 'path:<glob>' | 'name:<glob>' | 'all'"""
    if sel == 'all': return True
    k, g = sel.split(':', 1)
    if k == 'path': return fnmatch.fnmatchcase(u['path'], g)
    if k == 'name': return u.get('name') == g
    if k == 'nameglob': return u.get('name') is not None and fnmatch.fnmatchcase(u['name'], g)
    raise ValueError(sel)


def select(prop_id, cfg, res):
    """-> (units in scope, obligations list[(unit, oid, kind)])  from the build result"""
    units = [u for u in res['units'] if u['kind'] == 'verified']
    scope = []
    for u in units:
        if any(unit_matches(u, s) for s in cfg.get('units', [])):
            scope.append(u)
    obligations = []
    scope_paths = set(u['path'] for u in scope)
    classes = cfg.get('classes', ['safety', 'post', 'invariant', 'assert', 'termination', 'other'])
    label_re = re.compile(cfg['label_re']) if cfg.get('label_re') else None
    for u in units:
        in_scope = u['path'] in scope_paths
        labs = res['clauses'].get(u['path'], [])
        if in_scope and 'safety' in classes:
            obligations.append((u['path'], 'safety:*', 'safety'))
        for l in labs:
            if labels_props(l) == {'C15'} and prop_id != 'C15':
                continue   # allocation-bound clauses are read by C15 only
            mine = prop_id in labels_props(l)
            if label_re is not None:
                ok = (mine or (in_scope and cfg.get('all_labels_in_scope'))) and label_re.search(l)
            else:
                ok = mine or (in_scope and cfg.get('all_labels_in_scope', True))
            if ok and 'post' in classes:
                obligations.append((u['path'], 'post:' + l, 'post'))
    return scope, obligations


def failing(prop_id, cfg, res, obligations):
    """failed obligations of this property: list of fail dicts"""
    obl = {}
    for u, oid, k in obligations:
        obl.setdefault(u, set()).add(oid)
    out = []
    classes = cfg.get('classes', ['safety', 'post', 'invariant', 'assert', 'termination', 'other'])
    for f in res['fails']:
        o = obl.get(f['unit'])
        if o is None: continue
        if f['cls'] == 'safety':
            if 'safety:*' in o: out.append(f)
        elif f['cls'] == 'post':
            if labels_props(f.get('label') or '') == {'C15'} and prop_id != 'C15':
                continue
            if f['oid'] in o: out.append(f)
            elif f['label'] is None and 'post' in classes and 'safety:*' in o: out.append(f)   # e.g. vstd trait postcondition
        else:
            # invariant / assert / termination failures undermine every clause of the unit
            if f['cls'] in classes or 'post' in classes: out.append(f)
    return out


def load_known():
    if not os.path.exists(KNOWN): return dict(findings=[], fixed=[])
    return json.load(open(KNOWN))


def is_known(known, prop_id, f):
    for k in known.get('findings', []):
        if k['property'] != prop_id: continue
        if k['unit'] != f['unit']: continue
        if k['obligation'] == f['oid']:
            return k
    return None


def main(argv):
    if len(argv) >= 2 and argv[1] == '--replay':
        return replay(argv[2])
    if len(argv) >= 2 and argv[1] == '--setup':
        r = subprocess.run(['verus', '--version'], stdout=subprocess.PIPE, stderr=subprocess.STDOUT, text=True)
        print(r.stdout.strip().split('\n')[0])
        res = engine.build()
        if 'tool_error' in res:
            print('TOOL-ERROR', res['tool_error']); return 2
        print('setup: verus run ok (verified %s, errors %s, %.1fs)' % (res.get('verified'), res.get('errors'), res['wall']))
        return 0
    if len(argv) < 2:
        print(__doc__); return 2
    prop_id = argv[1]; tier = argv[2] if len(argv) > 2 else os.environ.get('VERIF_TIER', 'quick')
    seed = int(os.environ.get('VERIF_SEED', '0') or 0)
    props = load_props()
    if prop_id not in props:
        print('unknown or unclaimed property', prop_id); return 2
    cfg = props[prop_id]
    t0 = time.time()
    res = engine.build()
    if 'tool_error' in res:
        print('TOOL-ERROR: %s' % res['tool_error']); return 2
    scope, obligations = select(prop_id, cfg, res)
    # units of this property that fell out of Verus's reach on this tree (unsupported construct): undecided, not an alarm
    lost = [u for u in res['units'] if u['path'].split('@')[0] in res.get('auto_external', {}) and any(unit_matches(u, s) for s in cfg.get('units', []))]
    if lost:
        for u in lost:
            print('TOOL-ERROR: %s can no longer be translated by Verus (%s): property %s is undecided on this tree' % (u['path'], res['auto_external'][u['path'].split('@')[0]], prop_id))
        return 2
    if not obligations:
        print('TOOL-ERROR: property %s selects no obligation (vacuous check)' % prop_id); return 2
    fails = failing(prop_id, cfg, res, obligations)
    known = load_known()
    # an `as-recorded-in-known-findings` clause states a recorded deviation exactly, so that a DIFFERENT wrong value is still reported.  It binds
    # only while the deviation is there: once every listed finding of that instruction is discharged (the defect was repaired), the description is
    # void -- it is dropped from the obligations and a failure of it is not a violation.
    AR = 'as-recorded-in-known-findings'
    failed_now = set((f['unit'], f['oid']) for f in res['fails'])
    def ar_void(unit, oid):
        if AR not in oid: return False
        stem = oid.rsplit('|', 1)[0] + '|'
        listed = [k for k in known.get('findings', []) if k['unit'] == unit and k['obligation'].startswith(stem)]
        return not any((k['unit'], k['obligation']) in failed_now for k in listed)
    obligations = [(u, oid, k) for u, oid, k in obligations if not ar_void(u, oid)]
    fails = [f for f in fails if not ar_void(f['unit'], f.get('oid') or '')]
    kf = []; viol = []
    for f in fails:
        k = is_known(known, prop_id, f)
        (kf if k else viol).append((f, k))
    # functions that did not exist when the contracts were written carry no contract: failures in them or in their direct
    # callers mean "needs a contract", not "bug" (modular verification sees a callee only through its contract)
    known_units = set(l.strip() for l in open(os.path.join(VERIF, 'spec', 'known_units.txt')) if l.strip() and not l.startswith('#'))
    new_units = set(u['path'].split('@')[0] for u in res['units'] if u['path'].split('@')[0] not in known_units)
    # a unit whose body Verus could not translate on this tree (or whose overlay lost its anchor) was re-emitted WITHOUT contract:
    # its callers see `ensures true`, exactly like the callers of a new function
    new_units |= set(res.get('auto_external') or {})
    needs_contract = []
    if new_units and viol:
        keep = []
        for f, k in viol:
            callees = set(x.split('@')[0] for x in res.get('callgraph', {}).get(f['unit'], []))
            if f['unit'].split('@')[0] in new_units or (callees & new_units):
                needs_contract.append((f, sorted((callees & new_units) | ({f['unit']} & new_units))))
            else:
                keep.append((f, k))
        viol = keep
    # stability: a failure that is not a listed finding is re-checked in isolation (one function, rlimit x4);
    # if the obligation is discharged there, the first failure was solver instability, not a violation
    unstable = []
    if viol:
        by_unit = {}
        for f, _ in viol: by_unit.setdefault(f['unit'], []).append(f)
        still = []
        for upath, fs in by_unit.items():
            u = next((x for x in res['units'] if x['path'] == upath), None)
            if u is None or len(by_unit) > 12:
                still += fs; continue
            fn = upath.split('@')[0].split('::', 1)[1]
            parts = fn.split('::')
            if len(parts) == 3: fn = parts[0] + '::' + parts[2]
            if '@' in upath:
                # the copy of a function registered under a second instruction NAME is emitted under a mangled name (gen.handle_top_fn)
                fn += '__as__' + re.sub(r'[^A-Za-z0-9]', '_', upath.split('@', 1)[1])
            r2 = engine.build(verify_only=['push::' + u['mod']], verify_fn=fn, extra_args=['--rlimit', '300'])
            # the isolated run counts only if it really verified THIS function (non-zero resource count for it)
            st = [v for k2, v in (r2.get('fstats') or {}).items() if k2.endswith('::' + fn.split('::')[-1])]
            if 'tool_error' in r2 or r2['tool'] or not ((r2.get('verified') or 0) + (r2.get('errors') or 0)) or not any(v.get('rlimit') for v in st):
                still += fs; continue
            again = set(x['oid'] for x in r2['fails'] if x['unit'] == upath)
            for f in fs:
                if f['oid'] in again or any(x['unit'] == upath and x['cls'] != 'post' for x in r2['fails']):
                    still.append(f)
                else:
                    unstable.append(dict(unit=upath, obligation=f['oid'], note='failed in the whole-crate run (rlimit 30), discharged in isolation (rlimit 120)'))
        viol = [(f, None) for f in still]
    # tool-level trouble inside the scope => undecided
    tool = list(res['tool'])
    rc = 0
    for f, k in kf:
        print('KNOWN-FINDING: property=%s %s %s -- %s' % (prop_id, f['unit'], f['oid'], k.get('what', '')))
    # vacuity guard: a few units of this property are re-checked with `ensures false` appended; the canary must FAIL
    ncan = int(os.environ.get('VERIF_CANARIES', '3' if tier == 'quick' else '12'))
    canaries = run_canaries(prop_id, scope, res, seed, ncan) if ncan > 0 else []
    bad = [c for c in canaries if c['verified_false']]
    if bad:
        for c in bad:
            print('TOOL-ERROR: vacuous contract: `ensures false` verifies for %s' % c['unit'])
        write_evidence(prop_id, cfg, tier, seed, res, scope, obligations, fails, kf, viol, dict(canaries=canaries), time.time() - t0)
        return 2
    extra = {}
    rw = None
    if tier == 'thorough':
        import thorough
        rw = thorough.rewrites_selftest(engine.REPO, res['key'])
        if not rw.get('ok'):
            tool.append('the R8/R9/R12 source-level rewrites do not preserve the repository\'s tests on this tree (%s): the extracted text cannot be trusted' % rw.get('result'))
    if tier == 'thorough' and cfg.get('thorough'):
        import thorough
        extra = thorough.run(prop_id, cfg, res, seed)
        for v in extra.get('violations', []):
            viol.append((v, None))
        for k in extra.get('known', []):
            print('KNOWN-FINDING: property=%s %s' % (prop_id, k))
    if viol:
        os.makedirs(REPLAYS, exist_ok=True)
        rp = os.path.join(REPLAYS, '%s.json' % prop_id)
        rec = dict(property=prop_id, tree=res['key'], verus_cmd=res['verus_cmd'],
                   failed_obligations=[dict(unit=f['unit'], instruction=f.get('name'), obligation=f['oid'], cls=f['cls'],
                                            verifier_message=f['message'], source=f.get('src'), expression=f.get('text'),
                                            counterexample=f.get('counterexample')) for f, _ in viol])
        json.dump(rec, open(rp, 'w'), indent=1)
        for f, _ in viol[:40]:
            print('  failed: %s :: %s (%s) at %s' % (f['unit'], f['oid'], f['message'], f.get('src')))
        has_cex = any(f.get('counterexample') for f, _ in viol)
        print('VIOLATION property=%s replay=%s%s' % (prop_id, rp, '' if has_cex else ' no-failing-input-found'))
        rc = 1
    elif tool:
        for t in tool[:10]:
            print('TOOL-ERROR: %s' % t)
        rc = 2
    elif needs_contract:
        for f, who in needs_contract[:10]:
            print('TOOL-ERROR: undecided: %s :: %s involves function(s) without a contract on this tree (new, untranslatable by Verus, or with a lost overlay anchor): %s' % (f['unit'], f['oid'], ', '.join(who)))
        rc = 2
    extra['canaries'] = canaries
    if rw is not None: extra['rewrites_selftest'] = rw
    extra['unstable'] = unstable
    write_evidence(prop_id, cfg, tier, seed, res, scope, obligations, fails, kf, viol, extra, time.time() - t0)
    if rc == 0:
        print('OK property=%s obligations=%d discharged=%d known_findings=%d units=%d (%s, verus %.1fs, cache %s)' % (
            prop_id, len(obligations) - len(kf), len(obligations) - len(kf), len(kf), len(scope), tier, res['verus_wall'], res['cache']))
    return rc


def run_canaries(prop_id, scope, res, seed, n):
    import random
    cands = [u for u in scope if u['kind'] == 'verified' and res['clauses'].get(u['path'])]
    if not cands:
        cands = [u for u in scope if u['kind'] == 'verified']
    rnd = random.Random(seed * 7919 + sum(map(ord, prop_id)))
    picks = rnd.sample(cands, min(n, len(cands)))
    out = []
    for u in picks:
        fn = u['path'].split('@')[0].split('::', 1)[1]
        parts = fn.split('::')
        # impl methods: Type::method ; trait impl methods Type::Trait::method -> Type::method
        if len(parts) == 3: fn = parts[0] + '::' + parts[2]
        r = engine.build(canary=u['path'], verify_only=['push::' + u['mod']], verify_fn=fn)
        if 'tool_error' in r:
            out.append(dict(unit=u['path'], verified_false=False, note='tool error: ' + r['tool_error'])); continue
        failed_here = any(f['unit'] == u['path'] for f in r['fails'])
        ran = (r.get('verified') or 0) + (r.get('errors') or 0) > 0
        out.append(dict(unit=u['path'], verified_false=bool(ran and not failed_here and not r['tool']), ran=ran))
    return out


def write_evidence(prop_id, cfg, tier, seed, res, scope, obligations, fails, kf, viol, extra, wall):
    os.makedirs(EVID, exist_ok=True)
    failed_keys = set()
    for f in fails:
        failed_keys.add((f['unit'], f['oid'] if f['cls'] == 'post' else 'safety:*'))
    kf_keys = set((f['unit'], f['oid'] if f['cls'] == 'post' else 'safety:*') for f, _ in kf)
    n_obl = len([o for o in obligations if (o[0], o[1]) not in kf_keys])
    n_dis = len([o for o in obligations if (o[0], o[1]) not in failed_keys])
    units_ext = [u for u in res['units'] if u['kind'] in ('external', 'trusted')]
    scope_paths = set(u['path'] for u in scope)
    fst = res.get('fstats', {})
    def fstat(u):
        for k, v in fst.items():
            if k.endswith(u['path'].replace('::Display::', '::').split('@')[0]) or k.endswith('::' + u['path'].split('::', 1)[-1].split('@')[0]):
                return v
        return None
    smt_us = 0; per_fn = []
    for u in scope:
        st = fstat(u)
        if st:
            smt_us += st['us']; per_fn.append(dict(fn=u['path'], smt_ms=round(st['us'] / 1000, 1), rlimit=st['rlimit'], ok=st['ok']))
    per_fn.sort(key=lambda x: -x['smt_ms'])
    samples = [dict(unit=o[0], obligation=o[1]) for o in obligations[:8]]
    ev = dict(
        property_id=prop_id, tier=tier, seed=seed, level=cfg.get('level', 'proof'),
        coverage=dict(
            obligations=n_obl, discharged=n_dis if not viol else n_dis,
            checker_cmd=res['verus_cmd'],
            trusted_base=cfg.get('trusted_base', []) + [
                'Verus %s / Z3 (bundled); rustc 1.98.1 front end for the extracted text' % res.get('verus_version'),
                'generated file: %d #[verifier::external_body], %d #[verifier::external], %d assume_specification, %d axiom fn, %d uninterp spec fn, %d assume(), %d admit()' % (
                    res['scan']['external_body'], res['scan']['external'], res['scan']['assume_specification'], res['scan']['axiom'],
                    res['scan']['uninterp'], res['scan']['assume'], res['scan']['admit'])],
            samples=samples,
            assume_statements=res.get('assume_sites', []),
            trusted_functions_with_assumed_contracts=res.get('trusted_fns', []),
            functions_under_contract=sorted(scope_paths),
            functions_under_contract_n=len(scope_paths),
            known_finding_obligations=[dict(unit=f['unit'], obligation=f['oid'], what=k.get('what')) for f, k in kf],
            failed_obligations=[dict(unit=f['unit'], obligation=f['oid'], message=f['message']) for f, _ in viol],
            back_end='Verus (SMT: Z3) for every obligation listed; Kani/CBMC entries, if any, are listed under kani',
            smt_time_ms_in_scope=round(smt_us / 1000, 1),
            slowest_functions=per_fn[:10],
            verus_wall_s=round(res['verus_wall'], 1), cache=res['cache'], tree_key=res['key'],
            whole_crate=dict(verified=res.get('verified'), errors=res.get('errors')),
            extraction=res['stats'],
            out_of_reach=[dict(fn=u['path'], kind=u['kind'], reason=u['reason']) for u in units_ext
                          if any(engine_sel(u, s) for s in cfg.get('units', []))],
            not_decided=cfg.get('not_decided', []),
            bounded_stand_ins=extra.get('bounded', []),
            kani=extra.get('kani', []),
            vacuity_canaries=extra.get('canaries', []),
            rewrites_selftest=extra.get('rewrites_selftest'),
            solver_instability_resolved=extra.get('unstable', []),
            explanation=cfg.get('explanation', ''),
        ),
        assumptions=cfg.get('assumptions', []) + GLOBAL_ASSUMPTIONS,
        wall_s=round(wall, 2),
        violations=len(viol),
    )
    json.dump(ev, open(os.path.join(EVID, '%s.json' % prop_id), 'w'), indent=1)


def engine_sel(u, sel):
    try:
        return unit_matches(u, sel)
    except Exception:
        return False


GLOBAL_ASSUMPTIONS = [
    'T-std: assumed contracts for std functions vstd does not specify (spec/00_prelude.rs, mod tstd), incl. their panic preconditions',
    'A-float: f32 + - * / % and comparisons are total deterministic functions of their operands (values uninterpreted)',
    'A-clone: derived Clone returns a structurally equal value (vstd `cloned` + axioms for the crate types)',
    'A-string-ext / A-print: Strings with equal characters are equal values; printing through Display is a deterministic function of the value (str_of), the text itself uninterpreted',
    'assumed contracts of slice::sort (i32: ascending permutation), the two sort_by call forms (R13), f32::clamp, String == str',
    'machine integers are NOT treated as mathematical: every + - * / % and narrowing is checked for overflow by Verus',
    'the extracted text is checked by Verus\'s rustc 1.98.1 front end; the repository builds with its own stable toolchain (same source text)',
    'rewrites R1 (call through the instruction table -> wrapper, A-dispatch), R2 (rand imports -> stub module with assumed contracts), R3 (for+continue desugaring), R4 (compound assignment expansion), R5 (reference patterns), R6 (reference comparison), R7 (`as f32` / `f32 as usize` / `as i32` of a float / f32 constants -> wrapper functions whose bodies are the original expressions; results uninterpreted), R8 (a new pure straight-line helper is verified inlined at its call sites), R9 (iterator adapters enumerate / rev().enumerate() / fold / filter+count / position / for_each / retain / keys().cloned().collect() / HashMap iter_mut replaced by the loops they stand for: ASSUMES std\'s documented semantics of those adapters; tools/selftest_rewrites.sh runs the repository\'s tests on the rewritten text, the bounded Kani harnesses run the original adapters), R15 (the parser\'s str operations -> wrappers; ASSUMED contracts from std\'s documentation: starts_with is the prefix relation and an ASCII prefix of n bytes makes byte offset n character offset n, strip_suffix removes the suffix, split / parse / split_whitespace are uninterpreted pure functions of the characters), R16 (the body of the token loop of parse_program is verified as a function of its own: moved verbatim, `continue` -> `return`, captured counter by `&mut`), R17 (`Vec::with_capacity(n)` -> wrapper requiring that n elements fit: ASSUMED for n <= 2^31-1 and for n up to the length of an existing vector), R14 (f32 `iter().sum()` -> left-to-right loop from std\'s empty sum: ASSUMED order, cross-checked by the bounded Kani harness b_c09_float_vector_sum), R13 (the two `sort_by` call forms -> wrappers with ASSUMED contracts), R12 (`println!` statements dropped), R11 (`x.to_string()` of an indexed element / reference parameter -> wrapper whose result is an uninterpreted function of the value: ASSUMES the Display impls are pure), DETRAIT are applied mechanically; counts under coverage.extraction; see DESIGN.md I.2',
]


def replay(path):
    rec = json.load(open(path))
    print(json.dumps(rec, indent=1)[:4000])
    prop = rec['property']
    # re-decide the recorded obligations on the current tree
    res = engine.build()
    if 'tool_error' in res:
        print('TOOL-ERROR', res['tool_error']); return 2
    still = []
    for o in rec['failed_obligations']:
        for f in res['fails']:
            if f['unit'] == o['unit'] and f['oid'] == o['obligation']:
                still.append(o)
    for o in rec['failed_obligations']:
        cx = o.get('counterexample')
        if cx and cx.get('native_cmd'):
            print('native replay:', cx['native_cmd'])
            p = subprocess.run(cx['native_cmd'], shell=True, stdout=subprocess.PIPE, stderr=subprocess.STDOUT, text=True)
            print(p.stdout[-2000:])
    print('%d of %d recorded obligations still fail on the current tree' % (len(still), len(rec['failed_obligations'])))
    return 1 if still else 0


if __name__ == '__main__':
    sys.exit(main(sys.argv))

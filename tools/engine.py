#!/usr/bin/env python3
"""Engine: build the Verus crate from /repo's working tree, run Verus once, classify every
diagnostic into (unit, obligation id, class).  Results are cached per (hash of /repo/src, hash
of /verif/spec + /verif/tools): an edit of /repo changes the hash and forces a rebuild."""
import os, re, sys, json, time, fcntl, subprocess, shutil
HERE = os.path.dirname(os.path.abspath(__file__))
sys.path.insert(0, HERE)
import gen, vrun, rsitems

VERIF = os.path.dirname(HERE)
REPO = os.environ.get('VERIF_REPO', '/repo')
SPEC = os.path.join(VERIF, 'spec')
CACHE = os.path.join(VERIF, '.cache')
GEN = os.path.join(VERIF, 'gen')
RLIMIT = '100'


def load_spec():
    sp = gen.Spec()
    for f in sorted(os.listdir(SPEC)):
        if f.endswith('.vspec'):
            sp.load(os.path.join(SPEC, f))
    rows_mod = None
    rp = os.path.join(SPEC, 'rows.py')
    if os.path.exists(rp):
        import importlib.util
        s = importlib.util.spec_from_file_location('rows', rp)
        rows_mod = importlib.util.module_from_spec(s); s.loader.exec_module(rows_mod)
    pre = [os.path.join(SPEC, f) for f in sorted(os.listdir(SPEC)) if f.endswith('.rs')]
    # overlays generated next to the rows (loop invariants that follow one template for a family of functions)
    for path, ov in getattr(rows_mod, 'FN_OVERLAYS', {}).items():
        ent = sp.entry(path)
        for k, t in ov.get('loops', {}).items(): ent['loops'][k] = ent['loops'].get(k, '') + t
        for w, t in ov.get('proofs', {}).items(): ent['proofs'][w] = ent['proofs'].get(w, '') + t
        if ov.get('text'): ent['text'] += ov['text']
        if ov.get('attrs'): ent['attrs'] += ov['attrs']
    return sp, rows_mod, pre


SAFETY_PAT = [
    ('overflow', re.compile(r'possible arithmetic underflow/overflow')),
    ('divzero', re.compile(r'possible division by zero')),
    ('precondition', re.compile(r'precondition not satisfied')),
    ('index', re.compile(r'index out of bounds|possible out of bounds')),
    ('unreachable', re.compile(r'unreachable|reached .*panic|assertion failed.*unreachable')),
    ('recommends', re.compile(r'recommendation not met')),
]
TOOL_PAT = re.compile(r'rlimit|resource limit|internal error|not supported|does not yet support|unsupported|'
                      r'cannot find|mismatched types|expected one of|timed out|could not prove termination.*rlimit', re.I)


def norm(s):
    return re.sub(r'\s+', ' ', s).strip()


def span_text(sp):
    if not sp or not sp.get('text'):
        return ''
    parts = []
    for t in sp['text']:
        parts.append(t['text'][max(0, t['highlight_start'] - 1):max(0, t['highlight_end'] - 1)])
    return norm(' '.join(parts))


def classify(diags, asm):
    """-> list of failed obligations: dict(unit, cls, oid, label, message, gen_line, src, text)"""
    units = asm['units']; linemap = asm['linemap']
    gen_lines = asm['text'].split('\n')

    def unit_of(line):
        best = None
        for u in units:
            if u.gen_lo and u.gen_lo <= line <= u.gen_hi:
                if best is None or (u.gen_hi - u.gen_lo) < (best.gen_hi - best.gen_lo):
                    best = u
        return best

    fails = []; tool = []
    for d in diags:
        if d.get('level') != 'error':
            continue
        msg = d.get('message', '')
        if msg.startswith('aborting due to'):
            continue
        allspans = d.get('spans', [])
        spans = [s for s in allspans if s.get('file_name', '').endswith('.rs') and os.path.basename(s['file_name']).startswith('pushr_vs')]
        prim = vrun.primary_span(dict(spans=spans)) if spans else None
        foreign = [s for s in allspans if s not in spans]
        first = msg.split('\n')[0]
        if not spans or (d.get('code') and (d['code'] or {}).get('code', '').startswith('E')):
            tool.append(dict(message=first, line=(prim or {}).get('line_start'))); continue
        labelled = {norm(s.get('label') or ''): s for s in spans}
        cls = None; kind = None; where = prim
        if 'postcondition not satisfied' in msg:
            cls = 'post'
            for s in spans:
                if (s.get('label') or '').startswith('failed this postcondition'):
                    where = s
            for s in foreign:
                if (s.get('label') or '').startswith('failed this postcondition'):
                    kind = 'vstd:' + os.path.basename(s.get('file_name', '')) + ':' + str(s.get('line_start'))
        elif re.search(r'invariant not satisfied', msg):
            cls = 'invariant'
        elif re.search(r'assertion failed', msg):
            cls = 'assert'
        elif re.search(r'decreases not satisfied|could not prove termination', msg):
            cls = 'termination'
        else:
            for k, p in SAFETY_PAT:
                if p.search(msg):
                    cls = 'safety'; kind = k; break
        if cls is None:
            if TOOL_PAT.search(msg):
                tool.append(dict(message=first, line=prim['line_start'] if prim else None)); continue
            cls = 'other'
        line = where['line_start']
        # a precondition's "failed precondition" span may sit in another unit: the call site is primary
        u = unit_of(prim['line_start']) if cls == 'safety' else unit_of(line)
        if u is None:
            u = unit_of(prim['line_start'])
        if u is None:
            tool.append(dict(message=first, line=line)); continue
        label = None
        if cls == 'post':
            # the label comment sits on the last line of the clause (clauses may span lines)
            for ln in range(where['line_start'], min(where['line_end'] + 3, len(gen_lines)) + 1):
                m = re.search(r'//\s*\[([^\]]+)\]', gen_lines[ln - 1])
                if m:
                    label = m.group(1); break
            oid = 'post:' + (label or kind or span_text(where)[:120])
        elif cls == 'safety':
            callee = ''
            if kind == 'precondition':
                for s in spans:
                    if (s.get('label') or '').startswith('failed precondition'):
                        callee = span_text(s)[:80]
            oid = 'safety:%s:%s' % (kind, span_text(prim)[:140])
            if callee:
                oid += ' [requires %s]' % callee
        else:
            oid = '%s:%s' % (cls, span_text(prim)[:140])
        src = None
        pl = prim['line_start'] - 1
        if 0 <= pl < len(linemap) and linemap[pl]:
            src = 'src/push/%s.rs:%d' % linemap[pl]
        if src is None:
            src = 'src/push/%s.rs:%d' % (u.mod, u.src_line)
        fails.append(dict(unit=u.path, name=u.name, cls=cls, oid=oid, label=label, message=first,
                          gen_line=prim['line_start'], src=src, text=span_text(prim)[:200]))
    # de-duplicate
    seen = set(); out = []
    for f in fails:
        k = (f['unit'], f['oid'])
        if k in seen: continue
        seen.add(k); out.append(f)
    return out, tool


def unit_clauses(asm):
    """labelled clauses per unit: unit path -> [label]"""
    lines = asm['text'].split('\n')
    res = {}
    for u in asm['units']:
        if u.gen_lo is None or u.kind != 'verified': continue
        labs = []
        for ln in range(u.gen_lo, u.gen_hi + 1):
            m = re.search(r'//\s*\[([^\]]+)\]\s*$', lines[ln - 1])
            if m: labs.append(m.group(1))
        res[u.path] = labs
    return res


def KNOWN_UNITS():
    p = os.path.join(SPEC, 'known_units.txt')
    return set(l.strip() for l in open(p) if l.strip() and not l.startswith('#')) if os.path.exists(p) else set()


def KNOWN_BINDERS():
    p = os.path.join(SPEC, 'known_binders.json')
    return json.load(open(p)) if os.path.exists(p) else None


def call_graph(asm):
    """approximate: unit -> set of unit paths whose last path segment is called in its body"""
    lines = asm['text'].split('\n')
    by_last = {}
    for u in asm['units']:
        by_last.setdefault(u.path.split('::')[-1], []).append(u.path)
    g = {}
    for u in asm['units']:
        if u.gen_lo is None: continue
        body = '\n'.join(lines[u.gen_lo - 1:u.gen_hi])
        body = re.sub(r'//[^\n]*', '', body)
        callees = set()
        for m in re.finditer(r'\b([a-z_][a-z0-9_]*)\s*(?:::<[^>]*>)?\s*\(', body):
            for p in by_last.get(m.group(1), []):
                if p != u.path: callees.add(p)
        g[u.path] = callees
    return g


def build(repo=REPO, force=False, canary=None, verify_only=None, quiet=False, extra_args=(), verify_fn=None):
    """Assemble + verus.  Returns result dict (JSON-serialisable)."""
    spec_hash = gen.tree_hash(repo, extra_dirs=[SPEC, HERE])
    key = spec_hash + ('' if not canary else '-canary-' + re.sub(r'\W', '_', canary)) + \
        ('' if not verify_only else '-only-' + re.sub(r'\W', '_', '-'.join(verify_only))) + ('' if not verify_fn else '-fn-' + re.sub(r'\W', '_', verify_fn)) + ('' if not extra_args else '-x-' + re.sub(r'\W', '_', '-'.join(extra_args)))
    os.makedirs(CACHE, exist_ok=True); os.makedirs(GEN, exist_ok=True)
    cpath = os.path.join(CACHE, key + '.json')
    lock = open(os.path.join(CACHE, key + '.lock'), 'w')
    fcntl.flock(lock, fcntl.LOCK_EX)
    try:
        if not force and os.path.exists(cpath):
            r = json.load(open(cpath)); r['cache'] = 'hit'; return r
        t0 = time.time()
        sp, rows_mod, pre = load_spec()
        try:
            asm = gen.assemble(repo, sp, rows=rows_mod, canary=canary, opts=dict(prelude_files=pre, known_units=KNOWN_UNITS(), known_binders=KNOWN_BINDERS()))
        except gen.ToolError as e:
            return dict(tool_error=str(e), key=key, cache='miss')
        gpath = os.path.join(GEN, 'pushr_vs_%s.rs' % re.sub(r'\W', '_', key)[-40:])
        olds = sorted([os.path.join(GEN, f) for f in os.listdir(GEN) if f.startswith('pushr_vs_')], key=os.path.getmtime)
        for f in olds[:-8]:
            try: os.remove(f)
            except OSError: pass
        open(gpath, 'w').write(asm['text'])
        args = ['--multiple-errors', '30', '--num-threads', '16'] + (['--rlimit', RLIMIT] if '--rlimit' not in extra_args else []) + list(extra_args)
        if verify_only:
            for m in verify_only: args += ['--verify-only-module', m]
        if verify_fn:
            args += ['--verify-function', verify_fn]
        v = vrun.run_verus(gpath, args)
        fails, tool = classify(v['diags'], asm)
        # a construct Verus cannot translate inside ONE function must not make every property undecided: such units are
        # re-emitted as external_body (recorded in auto_external; any property whose scope contains one of them is exit 2)
        auto_external = dict(asm.get('lost_anchors') or {})
        for _round in range(4):
            culprits = {}
            for t in tool:
                ln = t.get('line')
                if ln is None: continue
                best = None
                for u in asm['units']:
                    if u.gen_lo and u.gen_lo <= ln <= u.gen_hi and u.kind == 'verified':
                        if best is None or (u.gen_hi - u.gen_lo) < (best.gen_hi - best.gen_lo): best = u
                if best is not None: culprits[best.path.split('@')[0]] = t['message'][:160]
            if not culprits or canary or verify_fn: break
            auto_external.update(culprits)
            for pth, why in auto_external.items(): sp.external[pth] = 'AUTO: ' + why
            asm = gen.assemble(repo, sp, rows=rows_mod, canary=canary, opts=dict(prelude_files=pre, known_units=KNOWN_UNITS(), known_binders=KNOWN_BINDERS()))
            auto_external.update(asm.get('lost_anchors') or {})
            open(gpath, 'w').write(asm['text'])
            v = vrun.run_verus(gpath, args)
            fails, tool = classify(v['diags'], asm)
        fstats = {}
        try:
            for mod in v['out']['times-ms']['smt']['smt-run-module-times']:
                for f in mod.get('function-breakdown', []):
                    fstats[f['function']] = dict(ok=f['success'], us=f['time-micros'], rlimit=f['rlimit'])
        except Exception:
            pass
        vr = (v['out'] or {}).get('verification-results', {})
        units = [dict(path=u.path, mod=u.mod, kind=u.kind, src_line=u.src_line, reason=u.reason, name=u.name,
                      gen_lo=u.gen_lo, gen_hi=u.gen_hi) for u in asm['units']]
        scan = {k: len(re.findall(p, asm['text'])) for k, p in [
            ('external_body', r'#\[verifier::external_body\]'), ('external', r'#\[verifier::external\]'),
            ('assume_specification', r'\bassume_specification\b'), ('axiom', r'\baxiom fn\b'),
            ('assume', r'\bassume\s*\('), ('admit', r'\badmit\s*\('), ('external_derive', r'external_derive'),
            ('uninterp', r'\buninterp spec fn\b')]}
        assume_sites = []
        glines = asm['text'].split('\n')
        for i, l in enumerate(glines):
            if re.search(r'\bassume\s*\(', l) and not l.strip().startswith('//'):
                owner = None
                for u in asm['units']:
                    if u.gen_lo and u.gen_lo <= i + 1 <= u.gen_hi: owner = u.path
                assume_sites.append(dict(unit=owner, text=l.strip()[:200]))
        trusted_fns = [dict(fn=u.path, reason=u.reason) for u in asm['units'] if u.kind == 'trusted']
        r = dict(key=key, cache='miss', gen_path=gpath, assume_sites=assume_sites, trusted_fns=trusted_fns, verus_cmd=v['cmd'], verus_rc=v['rc'], wall=time.time() - t0,
                 verus_wall=v['wall'], fails=fails, tool=tool, fstats=fstats, verified=vr.get('verified'),
                 errors=vr.get('errors'), units=units, clauses=unit_clauses(asm), callgraph={k: sorted(x) for k, x in call_graph(asm).items()},
                 stats=asm['stats'], registry=asm['registry'], scan=scan, auto_external=auto_external,
                 stderr_other=[l for l in v['stderr_other'] if 'rust_verify/src/verifier.rs' not in l and '&note' not in l and '&sp.as_string' not in l][:40],
                 verus_version=((v['out'] or {}).get('verus') or {}).get('version'))
        if v['out'] is None:
            r['tool'].append(dict(message='verus produced no JSON result (crash?)'))
        json.dump(r, open(cpath, 'w'))
        return r
    finally:
        fcntl.flock(lock, fcntl.LOCK_UN); lock.close()


if __name__ == '__main__':
    r = build(force='--force' in sys.argv)
    if 'tool_error' in r:
        print('TOOL ERROR', r['tool_error']); sys.exit(2)
    print('verified', r['verified'], 'errors', r['errors'], 'wall %.1f' % r['wall'], r['cache'])
    byu = {}
    for f in r['fails']:
        byu.setdefault(f['unit'], []).append(f)
    for u, fs in sorted(byu.items()):
        print(u)
        for f in fs: print('    ', f['cls'], f['oid'][:150], f['src'])
    for t in r['tool'][:20]: print('TOOL', t)
    for u, why in (r.get('auto_external') or {}).items(): print('AUTO-EXTERNAL', u, why[:300])

#!/usr/bin/env python3
"""Assembler: /repo/src/push/*.rs  +  /verif/spec/*  ->  one Verus file.

Function bodies, type definitions, impl headers and `use` lines are copied byte for
byte from /repo's working tree; everything this tool adds or rewrites is listed in
DESIGN.md section 2 and counted in the returned `stats` (which the evidence files print).
"""
import os, re, sys, json, hashlib
sys.path.insert(0, os.path.dirname(os.path.abspath(__file__)))
import rsitems

MODULES = ['stack', 'buffer', 'index', 'configuration', 'vector', 'graph', 'item', 'io', 'state',
           'instructions', 'random', 'topology', 'boolean', 'integer', 'float', 'name', 'code',
           'execution', 'list', 'interpreter', 'parser']

DROP_USE = re.compile(r'^\s*(pub\s+)?use\s+(rand|rand_distr|names)\b')
DROP_EXTERN = re.compile(r'^\s*extern\s+crate\s+\w+\s*;')


class ToolError(Exception):
    """Anything that is the machinery's problem (lost anchor, unsupported construct): exit 2, never an alarm."""


class Spec:
    """Parsed overlay: spec/*.vspec files.

    @@ fn <mod>::[<Type>::]<name> [-> <retname>]      contract text follows (requires/ensures/decreases)
    @@ loop <k>                                        invariant/decreases text for the k-th loop of that fn
    @@ proof <where>                                   text inserted at: body_start | tail | loop <k> start | loop <k> end
    @@ trusted <path> [-> <retname>] : reason          external_body, the following contract is ASSUMED
    @@ external <path> : reason                        external_body, no contract
    @@ ignore <path> : reason                          #[verifier::external] (item invisible to Verus)
    @@ ghost <mod>                                     ghost text appended at the end of the module
    @@ attr <path>                                     attribute lines placed before the function
    """

    def __init__(self):
        self.fn = {}       # path -> dict(ret, text, loops{k:text}, proofs{where:text}, attrs, kind)
        self.ghost = {}    # mod -> [text]
        self.external = {}  # path -> reason
        self.ignore = {}
        self.files = []

    def entry(self, path):
        return self.fn.setdefault(path, dict(ret=None, text='', loops={}, proofs={}, attrs='', kind='verified', reason=''))

    def load(self, fname):
        self.files.append(fname)
        cur = None; buf = []; target = None

        def flush():
            nonlocal buf, target
            text = '\n'.join(buf).rstrip() + '\n' if buf else ''
            if target is not None and text.strip():
                target(text)
            buf = []; target = None
        for ln, line in enumerate(open(fname).read().split('\n'), 1):
            if line.startswith('@@'):
                flush()
                m = re.match(r'@@\s*(fn|trusted)\s+(\S+)(?:\s*->\s*(\w+))?(?:\s*:\s*(.*))?$', line)
                if m:
                    kind, path, ret, reason = m.groups()
                    cur = self.entry(path)
                    cur['ret'] = ret
                    if kind == 'trusted':
                        cur['kind'] = 'trusted'; cur['reason'] = reason or ''
                    def t(text, cur=cur): cur['text'] += text
                    target = t; continue
                m = re.match(r'@@\s*loop\s+(\d+)\s*$', line)
                if m:
                    k = int(m.group(1))
                    def t(text, cur=cur, k=k): cur['loops'][k] = cur['loops'].get(k, '') + text
                    target = t; continue
                m = re.match(r'@@\s*proof\s+(.+?)\s*$', line)
                if m:
                    w = m.group(1)
                    def t(text, cur=cur, w=w): cur['proofs'][w] = cur['proofs'].get(w, '') + text
                    target = t; continue
                m = re.match(r'@@\s*attr\s+(\S+)\s*$', line)
                if m:
                    e = self.entry(m.group(1))
                    def t(text, e=e): e['attrs'] += text
                    target = t; continue
                m = re.match(r'@@\s*external\s+(\S+)\s*(?::\s*(.*))?$', line)
                if m:
                    self.external[m.group(1)] = m.group(2) or ''; continue
                m = re.match(r'@@\s*ignore\s+(\S+)\s*(?::\s*(.*))?$', line)
                if m:
                    self.ignore[m.group(1)] = m.group(2) or ''; continue
                m = re.match(r'@@\s*ghost\s+(\w+)\s*$', line)
                if m:
                    mod = m.group(1)
                    def t(text, mod=mod): self.ghost.setdefault(mod, []).append(text)
                    target = t; continue
                if re.match(r'@@\s*#', line) or line.strip() == '@@':
                    continue
                raise ToolError('%s:%d: bad directive %r' % (fname, ln, line))
            else:
                buf.append(line)
        flush()


def impl_type_name(header):
    """`impl<T> PushStack<T> where ..` -> ('PushStack', None);  `impl fmt::Display for Item` -> ('Item','Display')."""
    h = re.sub(r'\s+', ' ', header)
    h = re.sub(r'^impl\s*(<[^>]*>)?\s*', '', h)
    h = re.split(r'\bwhere\b', h)[0].strip()
    m = re.match(r'(.+?)\s+for\s+(.+)$', h)
    tr = None
    if m:
        tr = m.group(1).strip(); h = m.group(2).strip()
        tr = re.sub(r'<.*$', '', tr).split('::')[-1]
    ty = re.sub(r"<.*$", '', h).strip().split('::')[-1]
    return ty, tr


def find_loops(src, mask, lo, hi):
    """Loops (for/while/loop) inside src[lo:hi] in source order: list of dict(kw, kind, body_open, body_close)."""
    res = []
    for m in re.finditer(r'\b(for|while|loop)\b', src[lo:hi]):
        s = lo + m.start()
        if mask[s] != ord('c'):
            continue
        kind = m.group(1)
        # `for` in `impl X for Y` / HRTB cannot occur inside fn bodies here
        j = lo + m.end(); pd = 0
        while j < hi:
            if mask[j] == ord('c'):
                ch = src[j]
                if ch in '([': pd += 1
                elif ch in ')]': pd -= 1
                elif ch == '{' and pd == 0:
                    break
                elif ch == ';' and pd == 0:
                    j = None; break
            j += 1
        if j is None or j >= hi:
            continue
        close = rsitems.match_brace(src, mask, j)
        res.append(dict(kw=s, kind=kind, body_open=j, body_close=close - 1))
    return res


def tail_pos(src, mask, body_open, body_close):
    """Offset where a proof block may be inserted 'last before the function's final return / tail expression':
    start of the last top-level statement or tail expression of the body."""
    # walk top-level statements of the body
    i = body_open + 1; depth = 0; last_start = None; stmt_start = None
    while i < body_close:
        if mask[i] == ord('c'):
            ch = src[i]
            if stmt_start is None and not ch.isspace():
                stmt_start = i
            if ch in '([{': depth += 1
            elif ch in ')]}':
                depth -= 1
                if ch == '}' and depth == 0:
                    # a block statement ends here unless followed by an operator/else/method call
                    k = i + 1
                    while k < body_close and (src[k].isspace() or mask[k] != ord('c')): k += 1
                    nxt = src[k:k + 4]
                    if not (nxt.startswith('else') or nxt.startswith('.') or nxt.startswith('?')
                            or nxt.startswith(';') or nxt.startswith('as ')):
                        last_start = stmt_start; stmt_start = None
            elif ch == ';' and depth == 0:
                last_start = stmt_start; stmt_start = None
        i += 1
    if stmt_start is not None:
        last_start = stmt_start
    if last_start is None:
        last_start = body_open + 1
    return last_start


class Edits:
    def __init__(self, src):
        self.src = src; self.e = []

    def insert(self, pos, text, prio=0):
        self.e.append((pos, pos, text, prio, len(self.e)))

    def replace(self, a, b, text):
        self.e.append((a, b, text, 0, len(self.e)))

    def apply(self, lo=0, hi=None):
        """Returns (text, linemap): linemap[g] = 1-based source line whose text starts generated line g (0-based), or None."""
        if hi is None: hi = len(self.src)
        es = sorted([x for x in self.e if x[0] >= lo and x[1] <= hi], key=lambda x: (x[0], x[1] != x[0], x[3], x[4]))
        parts = []; pos = lo
        for a, b, text, _, _ in es:
            if a < pos:
                if a == b:
                    continue
                raise ToolError('overlapping edits at %d' % a)
            parts.append((self.src[pos:a], pos)); parts.append((text, a if b > a else None)); pos = max(pos, b)
        parts.append((self.src[pos:hi], pos))
        lm = {}; g = 0; out = []
        for text, off in parts:
            if off is not None and text:
                base = self.src.count('\n', 0, off) + 1
                is_src = text == self.src[off:off + len(text)]
                for k, piece in enumerate(text.split('\n')):
                    if piece.strip() and (g + k) not in lm:
                        lm[g + k] = base + (k if is_src else 0)
            g += text.count('\n'); out.append(text)
        text = ''.join(out)
        return text, [lm.get(i) for i in range(text.count('\n') + 1)]


REWRITE_STATS_KEYS = ['R1_call_wrap', 'R2_rng', 'R3_for_continue', 'R4_compound', 'R5_refpat']


def ret_rewrite(src, mask, it, retname, ed):
    """`-> T` => `-> (retname: T)` in the signature of fn item `it`."""
    sig_lo = it['kw']; sig_hi = it['body_start']
    pd = 0; arrow = None
    for j in range(sig_lo, sig_hi):
        if mask[j] != ord('c'): continue
        ch = src[j]
        if ch in '([<' and not (ch == '<' and src[j - 1] == '-'): pd += 1
        elif ch in ')]': pd -= 1
        elif ch == '>' and src[j - 1] != '-': pd -= 1
        elif ch == '-' and src[j + 1] == '>' and pd == 0:
            arrow = j; break
    if arrow is None:
        return False
    tstart = arrow + 2
    m = re.search(r'\bwhere\b', src[tstart:sig_hi])
    tend = tstart + m.start() if m else sig_hi
    ty = src[tstart:tend].strip()
    ed.replace(tstart, tend, ' (%s: %s)%s' % (retname, ty, '\n' if m else ' '))
    return True


def registry(src_by_mod):
    """NAME -> (module, fn) from the map.insert(String::from("NAME"), Instruction::new(f)) statements."""
    reg = []
    pat = re.compile(r'\.\s*insert\(\s*String::from\("([^"]+)"\)\s*,\s*Instruction::new\(\s*([A-Za-z_0-9:]+)\s*\)\s*,?\s*\)')
    for mod, src in src_by_mod.items():
        for m in pat.finditer(src):
            reg.append((m.group(1), mod, m.group(2), src.count('\n', 0, m.start()) + 1))
    return reg


def load_sources(repo):
    srcs = {}
    for m in MODULES:
        p = os.path.join(repo, 'src', 'push', m + '.rs')
        srcs[m] = open(p).read()
    return srcs


def tree_hash(repo, extra_dirs=()):
    h = hashlib.sha256()
    paths = []
    for root, _, files in os.walk(os.path.join(repo, 'src')):
        for f in files:
            paths.append(os.path.join(root, f))
    for d in extra_dirs:
        for root, dirs, files in os.walk(d):
            dirs[:] = [x for x in dirs if x not in ('__pycache__',)]
            for f in files:
                if f.endswith('.pyc'): continue
                paths.append(os.path.join(root, f))
    for p in sorted(paths):
        h.update(p.encode()); h.update(b'\0'); h.update(open(p, 'rb').read()); h.update(b'\0')
    return h.hexdigest()[:24]


def is_cfg_test(src, it):
    return '#[cfg(test)]' in src[it['start']:it['kw']]


class Unit:
    """One function as emitted: path, kind (verified/trusted/external/ignored), generated line span, source file+lines."""
    def __init__(self, path, mod, kind, src_line, reason=''):
        self.path = path; self.mod = mod; self.kind = kind; self.src_line = src_line; self.reason = reason
        self.gen_lo = None; self.gen_hi = None
        self.clauses = {}   # generated line -> label
        self.name = None    # instruction NAME if this is a registry unit


def fn_path(mod, it):
    p = it.get('parent')
    if p is not None and p['kind'] == 'impl':
        ty, tr = impl_type_name(p['header'])
        return '%s::%s::%s%s' % (mod, ty, (tr + '::') if tr else '', it['name'])
    if p is not None and p['kind'] == 'trait':
        return '%s::%s::%s' % (mod, p['name'], it['name'])
    return '%s::%s' % (mod, it['name'])


def apply_rewrites(src, mask, it, ed, stats, spec_entry):
    """R3/R4/R5 inside the body of fn item `it` (see DESIGN 2.1). Purely syntactic, pattern driven."""
    lo, hi = it['body_start'], it['end']
    body = src[lo:hi]
    # R5a: match arm pattern `&_ =>`
    for m in re.finditer(r'&_\s*=>', body):
        if mask[lo + m.start()] == ord('c'):
            ed.replace(lo + m.start(), lo + m.start() + 1, ''); stats['R5_refpat'] += 1
    # R3: `for PAT in EXPR { BODY }` whose body contains `continue` => the reference desugaring
    #     { let mut it = IntoIterator::into_iter(EXPR); loop { match it.next() { None => break, Some(PAT) => { BODY } } } }
    loops = find_loops(src, mask, lo + 1, hi - 1)
    for k, L in enumerate(loops):
        if L['kind'] != 'for': continue
        btxt = src[L['body_open']:L['body_close']]
        if not any(mask[L['body_open'] + m.start()] == ord('c') for m in re.finditer(r'\bcontinue\b', btxt)):
            continue
        hdr = src[L['kw']:L['body_open']]
        m = re.match(r'for\s+(.+?)\s+in\s+(.+?)\s*$', hdr, re.S)
        if not m: raise ToolError('R3: cannot parse for header %r' % hdr)
        pat, expr = m.group(1), m.group(2)
        auto = ''
        if re.search(r'\.\.', expr) and not (spec_entry and k in spec_entry['loops'] and 'decreases' in spec_entry['loops'][k]):
            auto = '\n            invariant r3_it%d.start <= r3_it%d.end,\n' % (k, k)
            if spec_entry and k in spec_entry['loops']:
                auto = '\n'
            else:
                auto += '            decreases r3_it%d.end - r3_it%d.start,\n        ' % (k, k)
        ed.replace(L['kw'], L['body_open'], '{ let mut r3_it%d = IntoIterator::into_iter(%s); loop %s' % (k, expr, auto))
        ed.insert(L['body_open'] + 1, ' match r3_it%d.next() { None => break, Some(%s) => {' % (k, pat), prio=-10)
        ed.insert(L['body_close'], '} } ', prio=10)
        ed.insert(L['body_close'] + 1, ' }', prio=10)
        stats['R3_for_continue'] += 1
    # R4: `LHS op= RHS` => `{ let t = RHS; LHS = LHS op' t; }` for op in + - * / (Verus ICE on the f32 compound
    # form) and & | (=> && ||: Verus has no & | on bool).  Applied to every such statement, whatever the type:
    # for integers the two forms have the same checks in the same order.  `%=` is left alone.
    k = 0
    for m in re.finditer(r'(?<![-+*/&|<>=!%^])(\+|-|\*|/|&|\|)=(?!=)', body):
        p = lo + m.start()
        if mask[p] != ord('c'): continue
        # LHS: back to the previous statement boundary
        i = p - 1; d = 0
        while i > lo:
            if mask[i] == ord('c'):
                ch = src[i]
                if ch in ')]': d += 1
                elif ch in '([':
                    if d == 0: break
                    d -= 1
                elif d == 0 and (ch in ';{},' or (ch == '>' and src[i - 1] == '=')):
                    break
            i -= 1
        lhs_lo = i + 1
        lhs = src[lhs_lo:p].strip()
        if not re.match(r'^[\w\.\[\]\*\s\(\)]+$', lhs):
            stats['R4_skipped'] = stats.get('R4_skipped', 0) + 1
            continue
        # RHS: forward to ; or , or } at depth 0
        j = lo + m.end(); d = 0
        while j < hi:
            if mask[j] == ord('c'):
                ch = src[j]
                if ch in '([{': d += 1
                elif ch in ')]}':
                    if d == 0: break
                    d -= 1
                elif d == 0 and ch in ';,':
                    break
            j += 1
        rhs = src[lo + m.end():j].strip()
        op = m.group(1); op2 = {'&': '&&', '|': '||'}.get(op, op)
        lead = src[lhs_lo:p][:len(src[lhs_lo:p]) - len(src[lhs_lo:p].lstrip())]
        semi = ';' if src[j] == ';' else ''
        end = j + 1 if src[j] == ';' else j
        ed.replace(lhs_lo, end, '%s{ let r4_t%d = %s; %s = %s %s r4_t%d; }' % (lead, k, rhs, lhs, lhs, op2, k))
        k += 1; stats['R4_compound'] += 1
    return


def assemble(repo, spec, rows=None, canary=None, opts=None):
    """Build the Verus crate text. Returns dict(text, units, linemap(list of (mod, srcline)|None), stats, registry)."""
    opts = opts or {}
    srcs = load_sources(repo)
    reg = registry(srcs)
    stats = {k: 0 for k in REWRITE_STATS_KEYS}
    stats.update(external_derive=0, external_body=0, external=0, dropped_use=0, dropped_test_mod=0,
                 fns_total=0, fns_verified=0, fns_trusted=0, fns_external=0, ret_named=0)
    out = []; linemap = []; units = []

    def emit(text, lm=None, mod=None):
        n = text.count('\n')
        if lm is None:
            lm = [None] * (n + 1)
        # text always ends with \n here
        out.append(text)
        for k in range(n):
            linemap.append((mod, lm[k]) if lm[k] else None)

    prelude = ''.join(open(p).read() for p in opts.get('prelude_files', []))
    emit(HEADER)
    emit(prelude if prelude.endswith('\n') or not prelude else prelude + '\n')
    emit('pub mod push {\n')
    name_units = {}
    if rows:
        # NAME -> row; registry binds NAME -> fn
        pass
    for mod in MODULES:
        src = srcs[mod]; mask = rsitems.scan_tokens(src)
        its = rsitems.items(src, mask=mask)
        ed = Edits(src)
        fn_marks = []   # (unit, start_offset, end_offset)
        uses_rand = False
        extra_units_text = []

        def handle_fn(it):
            path = fn_path(mod, it)
            stats['fns_total'] += 1
            line = src.count('\n', 0, it['kw']) + 1
            if it['body_start'] is None:
                return  # trait method declaration
            e = spec.fn.get(path)
            kind = 'verified'
            reason = ''
            if path in spec.ignore or any(path.startswith(p + '::') for p in spec.ignore):
                kind = 'ignored'
            elif path in spec.external:
                kind = 'external'; reason = spec.external[path]
            elif e and e['kind'] == 'trusted':
                kind = 'trusted'; reason = e['reason']
            u = Unit(path, mod, kind, line, reason)
            units.append(u)
            fn_marks.append((u, it['start'], it['end']))
            if kind == 'ignored':
                return
            kwline = src.rfind('\n', 0, it['kw']) + 1
            indent = src[kwline:it['kw']]
            if kind in ('external', 'trusted'):
                ed.insert(kwline, indent + '#[verifier::external_body]\n', prio=1)
                stats['external_body'] += 1
                stats['fns_external' if kind == 'external' else 'fns_trusted'] += 1
                if path in opts.get('stub_bodies', ()):   # bodies naming crates Verus cannot resolve
                    ed.replace(it['body_start'], it['end'], '{ unimplemented!() }')
            else:
                stats['fns_verified'] += 1
            if e:
                if e['attrs']:
                    ed.insert(kwline, ''.join(indent + l + '\n' for l in e['attrs'].strip().split('\n')), prio=0)
                if e['ret']:
                    if ret_rewrite(src, mask, it, e['ret'], ed): stats['ret_named'] += 1
                text = e['text']
                if canary == path:
                    text = text.rstrip('\n')
                    text += ('\n' if text else '') + ('    ensures false, // CANARY\n' if 'ensures' not in text else '        false, // CANARY\n')
                if text.strip():
                    ed.insert(it['body_start'], '\n' + text + indent, prio=0)
                if kind == 'verified':
                    loops = find_loops(src, mask, it['body_start'] + 1, it['end'] - 1)
                    for k, t in e['loops'].items():
                        if k >= len(loops):
                            raise ToolError('lost anchor: %s has no loop %d' % (path, k))
                        ed.insert(loops[k]['body_open'], '\n' + t + indent + '    ', prio=0)
                    for w, t in e['proofs'].items():
                        if w == 'body_start':
                            ed.insert(it['body_start'] + 1, '\n' + t, prio=0)
                        elif w == 'tail':
                            ed.insert(tail_pos(src, mask, it['body_start'], it['end'] - 1), t + indent + '    ', prio=0)
                        else:
                            m = re.match(r'loop\s+(\d+)\s+(start|end)$', w)
                            if not m: raise ToolError('bad proof position %r for %s' % (w, path))
                            k = int(m.group(1))
                            if k >= len(loops):
                                raise ToolError('lost anchor: %s has no loop %d' % (path, k))
                            if m.group(2) == 'start':
                                ed.insert(loops[k]['body_open'] + 1, '\n' + t, prio=0)
                            else:
                                ed.insert(loops[k]['body_close'], t, prio=0)
            elif canary == path and kind == 'verified':
                ed.insert(it['body_start'], '\n    ensures false, // CANARY\n' + indent, prio=0)
            if kind == 'verified':
                apply_rewrites(src, mask, it, ed, stats, e)

        for it in its:
            k = it['kind']
            if k == 'mod':
                if is_cfg_test(src, it):
                    ed.replace(it['start'], it['end'], ''); stats['dropped_test_mod'] += 1
                continue
            if k == 'use':
                ls = src.rfind('\n', 0, it['kw']) + 1
                if DROP_USE.match(src[ls:it['end']]):
                    # R2: the import is re-pointed to the stub module (same names, assumed contracts)
                    t = src[it['kw']:it['end']]
                    t = re.sub(r'\buse\s+rand::distributions::', 'use crate::rand_stub::', t)
                    t = re.sub(r'\buse\s+(rand_distr|names|rand)::', 'use crate::rand_stub::', t)
                    ed.replace(it['kw'], it['end'], t); stats['R2_rng'] += 1; uses_rand = True
                continue
            if k in ('struct', 'enum'):
                pre = src[it['start']:it['kw']]
                m = re.search(r'#\[derive', pre)
                if m:
                    ed.insert(it['start'] + m.start(), '#[verifier::external_derive]\n', prio=1); stats['external_derive'] += 1
                p = '%s::%s' % (mod, it['name'])
                if p in spec.external:
                    ed.insert(it['start'], '#[verifier::external_body]\n', prio=2); stats['external_body'] += 1
                if p in spec.ignore:
                    ed.insert(it['start'], '#[verifier::external]\n', prio=2); stats['external'] += 1
                continue
            if k == 'static' or k == 'const':
                p = '%s::%s' % (mod, it['name'])
                if p in spec.ignore:
                    ed.insert(it['start'], '#[verifier::external]\n', prio=2); stats['external'] += 1
                continue
            if k == 'impl':
                ty, tr = impl_type_name(it['header'])
                p = '%s::%s%s' % (mod, ty, ('::' + tr) if tr else '')
                if p in spec.ignore:
                    ed.insert(it['start'], '#[verifier::external]\n', prio=2); stats['external'] += 1
                    for c in it.get('children', []):
                        if c['kind'] == 'fn' and c['body_start'] is not None:
                            u = Unit(fn_path(mod, c), mod, 'ignored', src.count('\n', 0, c['kw']) + 1, spec.ignore[p])
                            units.append(u); fn_marks.append((u, c['start'], c['end'])); stats['fns_total'] += 1
                    continue
                for c in it.get('children', []):
                    if c['kind'] == 'fn': handle_fn(c)
                continue
            if k == 'trait':
                for c in it.get('children', []):
                    if c['kind'] == 'fn': handle_fn(c)
                continue
            if k == 'fn':
                handle_fn(it)
        # drop `extern crate`
        for m in re.finditer(r'^[ \t]*extern\s+crate\s+\w+\s*;[ \t]*\n', src, re.M):
            if mask[m.start() + len(m.group(0)) - len(m.group(0).lstrip())] == ord('c'):
                ed.replace(m.start(), m.end(), '')
        # markers so that unit spans can be found in the generated text
        for idx, (u, a, b) in enumerate(fn_marks):
            ed.insert(a, '/*U<%d*/' % (len(units) - len(fn_marks) + idx), prio=-5)
            ed.insert(b, '/*U>*/', prio=5)
        text, lm = ed.apply()
        if not text.endswith('\n'):
            text += '\n'; lm.append(None)
        emit('pub mod %s {\n' % mod)
        emit('#[allow(unused_imports)] use vstd::prelude::*;\n#[allow(unused_imports)] use crate::spec::*;\n')
        if uses_rand:
            emit('#[allow(unused_imports)] use crate::rand_stub as rand;\n')
        emit(text, lm, mod)
        for g in spec.ghost.get(mod, []):
            emit('// ---- ghost (spec) ----\n'); emit(g if g.endswith('\n') else g + '\n')
        emit('} // mod %s\n' % mod)
    emit('} // mod push\n')
    emit('} // verus!\nfn main() {}\n')
    full = ''.join(out)
    # unit spans from markers
    lines = full.split('\n')
    stack = []
    for i, l in enumerate(lines):
        for m in re.finditer(r'/\*U<(\d+)\*/|/\*U>\*/', l):
            if m.group(1) is not None:
                stack.append(int(m.group(1))); units[int(m.group(1))].gen_lo = i + 1
            else:
                units[stack.pop()].gen_hi = i + 1
    return dict(text=full, units=units, linemap=linemap, stats=stats, registry=reg)


HEADER = '''// GENERATED by /verif/tools/gen.py from /repo/src/push/*.rs -- do not edit.
#![allow(unused_imports, unused_variables, unused_mut, dead_code, unused_assignments, unreachable_code, non_snake_case, unused_parens)]
#![feature(allocator_api)]
use vstd::prelude::*;
verus! {
'''

if __name__ == '__main__':
    import argparse
    ap = argparse.ArgumentParser()
    ap.add_argument('--repo', default='/repo'); ap.add_argument('--out', default='/tmp/vx/pushr_vs.rs')
    ap.add_argument('--spec', default=os.path.join(os.path.dirname(os.path.abspath(__file__)), '..', 'spec'))
    a = ap.parse_args()
    sp = Spec()
    for f in sorted(os.listdir(a.spec)):
        if f.endswith('.vspec'): sp.load(os.path.join(a.spec, f))
    pre = [os.path.join(a.spec, f) for f in sorted(os.listdir(a.spec)) if f.endswith('.rs')]
    r = assemble(a.repo, sp, opts=dict(prelude_files=pre))
    os.makedirs(os.path.dirname(a.out), exist_ok=True)
    open(a.out, 'w').write(r['text'])
    print(json.dumps(r['stats']))
    print(len(r['units']), 'units;', len(r['registry']), 'registry entries')

#!/usr/bin/env python3
"""Assembler: /repo/src/push/*.rs  +  /verif/spec/*  ->  one Verus file.

Function bodies, type definitions, impl headers and `use` lines are copied byte for
byte from /repo's working tree; everything this tool adds or rewrites is listed in
DESIGN.md section 2 and counted in the returned `stats` (which the evidence files print).
"""
import os, re, sys, json, hashlib
sys.path.insert(0, os.path.dirname(os.path.abspath(__file__)))
import rsitems

MODULES = ['stack', 'buffer', 'index', 'configuration', 'vector', 'graph', 'item', 'io', 'state',
           'instructions', 'random', 'topology', 'boolean', 'integer', 'float', 'name', 'code',
           'execution', 'list', 'interpreter', 'parser']

DROP_USE = re.compile(r'^\s*(pub\s+)?use\s+(rand|rand_distr|names)\b')
DROP_EXTERN = re.compile(r'^\s*extern\s+crate\s+\w+\s*;')


class ToolError(Exception):
    """Anything that is the machinery's problem (lost anchor, unsupported construct): exit 2, never an alarm."""


class Spec:
    """Parsed overlay: spec/*.vspec files.

    @@ fn <mod>::[<Type>::]<name> [-> <retname>]      contract text follows (requires/ensures/decreases)
    @@ loop <k>                                        invariant/decreases text for the k-th loop of that fn
    @@ proof <where>                                   text inserted at: body_start | tail | loop <k> start | loop <k> end
    @@ trusted <path> [-> <retname>] : reason          external_body, the following contract is ASSUMED
    @@ external <path> : reason                        external_body, no contract
    @@ ignore <path> : reason                          #[verifier::external] (item invisible to Verus)
    @@ ghost <mod>                                     ghost text appended at the end of the module
    @@ attr <path>                                     attribute lines placed before the function
    """

    def __init__(self):
        self.fn = {}       # path -> dict(ret, text, loops{k:text}, proofs{where:text}, attrs, kind)
        self.ghost = {}    # mod -> [text]
        self.external = {}  # path -> reason
        self.ignore = {}
        self.detrait = {}
        self.files = []

    def entry(self, path):
        return self.fn.setdefault(path, dict(ret=None, text='', loops={}, proofs={}, attrs='', kind='verified', reason=''))

    def load(self, fname):
        self.files.append(fname)
        cur = None; buf = []; target = None

        def flush():
            nonlocal buf, target
            text = '\n'.join(buf).rstrip() + '\n' if buf else ''
            if target is not None and text.strip():
                target(text)
            buf = []; target = None
        for ln, line in enumerate(open(fname).read().split('\n'), 1):
            if line.startswith('@@'):
                flush()
                m = re.match(r'@@\s*(fn|trusted)\s+(\S+)(?:\s*->\s*(\w+))?(?:\s*:\s*(.*))?$', line)
                if m:
                    kind, path, ret, reason = m.groups()
                    cur = self.entry(path)
                    cur['ret'] = ret
                    if kind == 'trusted':
                        cur['kind'] = 'trusted'; cur['reason'] = reason or ''
                    def t(text, cur=cur): cur['text'] += text
                    target = t; continue
                m = re.match(r'@@\s*loop\s+(\d+)\s*$', line)
                if m:
                    k = int(m.group(1))
                    def t(text, cur=cur, k=k): cur['loops'][k] = cur['loops'].get(k, '') + text
                    target = t; continue
                m = re.match(r'@@\s*proof\s+(.+?)\s*$', line)
                if m:
                    w = m.group(1)
                    def t(text, cur=cur, w=w): cur['proofs'][w] = cur['proofs'].get(w, '') + text
                    target = t; continue
                m = re.match(r'@@\s*attr\s+(\S+)\s*$', line)
                if m:
                    e = self.entry(m.group(1))
                    def t(text, e=e): e['attrs'] += text
                    target = t; continue
                m = re.match(r'@@\s*external\s+(\S+)\s*(?::\s*(.*))?$', line)
                if m:
                    self.external[m.group(1)] = m.group(2) or ''; continue
                m = re.match(r'@@\s*ignore\s+(\S+)\s*(?::\s*(.*))?$', line)
                if m:
                    self.ignore[m.group(1)] = m.group(2) or ''; continue
                m = re.match(r'@@\s*detrait\s+(\S+)\s*(?::\s*(.*))?$', line)
                if m:
                    self.detrait[m.group(1)] = m.group(2) or ''; continue
                m = re.match(r'@@\s*ghost\s+(\w+)\s*$', line)
                if m:
                    mod = m.group(1)
                    def t(text, mod=mod): self.ghost.setdefault(mod, []).append(text)
                    target = t; continue
                if re.match(r'@@\s*#', line) or line.strip() == '@@':
                    continue
                raise ToolError('%s:%d: bad directive %r' % (fname, ln, line))
            else:
                buf.append(line)
        flush()


def impl_type_name(header):
    """`impl<T> PushStack<T> where ..` -> ('PushStack', None);  `impl fmt::Display for Item` -> ('Item','Display')."""
    h = re.sub(r'\s+', ' ', header)
    h = re.sub(r'^impl\s*(<[^>]*>)?\s*', '', h)
    h = re.split(r'\bwhere\b', h)[0].strip()
    m = re.match(r'(.+?)\s+for\s+(.+)$', h)
    tr = None
    if m:
        tr = m.group(1).strip(); h = m.group(2).strip()
        tr = re.sub(r'<.*$', '', tr).split('::')[-1]
    ty = re.sub(r"<.*$", '', h).strip().split('::')[-1]
    return ty, tr


def find_loops(src, mask, lo, hi):
    """Loops (for/while/loop) inside src[lo:hi] in source order: list of dict(kw, kind, body_open, body_close)."""
    res = []
    for m in re.finditer(r'\b(for|while|loop)\b', src[lo:hi]):
        s = lo + m.start()
        if mask[s] != ord('c'):
            continue
        kind = m.group(1)
        # `for` in `impl X for Y` / HRTB cannot occur inside fn bodies here
        j = lo + m.end(); pd = 0
        while j < hi:
            if mask[j] == ord('c'):
                ch = src[j]
                if ch in '([': pd += 1
                elif ch in ')]': pd -= 1
                elif ch == '{' and pd == 0:
                    break
                elif ch == ';' and pd == 0:
                    j = None; break
            j += 1
        if j is None or j >= hi:
            continue
        close = rsitems.match_brace(src, mask, j)
        res.append(dict(kw=s, kind=kind, body_open=j, body_close=close - 1))
    return res


def tail_pos(src, mask, body_open, body_close):
    """Offset where a proof block may be inserted 'last before the function's final return / tail expression':
    start of the last top-level statement or tail expression of the body."""
    # walk top-level statements of the body
    i = body_open + 1; depth = 0; last_start = None; stmt_start = None
    while i < body_close:
        if mask[i] == ord('c'):
            ch = src[i]
            if stmt_start is None and not ch.isspace():
                stmt_start = i
            if ch in '([{': depth += 1
            elif ch in ')]}':
                depth -= 1
                if ch == '}' and depth == 0:
                    # a block statement ends here unless followed by an operator/else/method call
                    k = i + 1
                    while k < body_close and (src[k].isspace() or mask[k] != ord('c')): k += 1
                    nxt = src[k:k + 4]
                    if not (nxt.startswith('else') or nxt.startswith('.') or nxt.startswith('?')
                            or nxt.startswith(';') or nxt.startswith('as ')):
                        last_start = stmt_start; stmt_start = None
            elif ch == ';' and depth == 0:
                last_start = stmt_start; stmt_start = None
        i += 1
    if stmt_start is not None:
        last_start = stmt_start
    if last_start is None:
        last_start = body_open + 1
    return last_start


class Edits:
    def __init__(self, src):
        self.src = src; self.e = []; self.dropped = []

    def insert(self, pos, text, prio=0):
        self.e.append((pos, pos, text, prio, len(self.e)))

    def replace(self, a, b, text):
        self.e.append((a, b, text, 0, len(self.e)))

    def apply(self, lo=0, hi=None):
        """Returns (text, linemap): linemap[g] = 1-based source line whose text starts generated line g (0-based), or None."""
        if hi is None: hi = len(self.src)
        es = sorted([x for x in self.e if x[0] >= lo and x[1] <= hi], key=lambda x: (x[0], x[1] != x[0], x[3], x[4]))
        parts = []; pos = lo
        for a, b, text, _, _ in es:
            if a < pos:
                if a == b:
                    self.dropped.append((a, text)); continue
                raise ToolError('overlapping edits at %d' % a)
            parts.append((self.src[pos:a], pos)); parts.append((text, a if b > a else None)); pos = max(pos, b)
        parts.append((self.src[pos:hi], pos))
        lm = {}; g = 0; out = []
        for text, off in parts:
            if off is not None and text:
                base = self.src.count('\n', 0, off) + 1
                is_src = text == self.src[off:off + len(text)]
                for k, piece in enumerate(text.split('\n')):
                    if piece.strip() and (g + k) not in lm:
                        lm[g + k] = base + (k if is_src else 0)
            g += text.count('\n'); out.append(text)
        text = ''.join(out)
        return text, [lm.get(i) for i in range(text.count('\n') + 1)]


REWRITE_STATS_KEYS = ['R1_call_wrap', 'R2_rng', 'R3_for_continue', 'R4_compound', 'R5_refpat', 'R6_refcmp']


def ret_rewrite(src, mask, it, retname, ed):
    """`-> T` => `-> (retname: T)` in the signature of fn item `it`."""
    sig_lo = it['kw']; sig_hi = it['body_start']
    pd = 0; arrow = None
    for j in range(sig_lo, sig_hi):
        if mask[j] != ord('c'): continue
        ch = src[j]
        if ch in '([<' and not (ch == '<' and src[j - 1] == '-'): pd += 1
        elif ch in ')]': pd -= 1
        elif ch == '>' and src[j - 1] != '-': pd -= 1
        elif ch == '-' and src[j + 1] == '>' and pd == 0:
            arrow = j; break
    if arrow is None:
        return False
    tstart = arrow + 2
    m = re.search(r'\bwhere\b', src[tstart:sig_hi])
    tend = tstart + m.start() if m else sig_hi
    ty = src[tstart:tend].strip()
    ed.replace(tstart, tend, ' (%s: %s)%s' % (retname, ty, '\n' if m else ' '))
    return True


def registry(src_by_mod):
    """NAME -> (module, fn) from the map.insert(String::from("NAME"), Instruction::new(f)) statements."""
    reg = []
    pat = re.compile(r'\.\s*insert\(\s*String::from\("([^"]+)"\)\s*,\s*Instruction::new\(\s*([A-Za-z_0-9:]+)\s*\)\s*,?\s*\)')
    for mod, src in src_by_mod.items():
        for m in pat.finditer(src):
            reg.append((m.group(1), mod, m.group(2), src.count('\n', 0, m.start()) + 1))
    return reg


def load_sources(repo):
    srcs = {}
    for m in MODULES:
        p = os.path.join(repo, 'src', 'push', m + '.rs')
        srcs[m] = open(p).read()
    return srcs


def tree_hash(repo, extra_dirs=()):
    h = hashlib.sha256()
    paths = []
    for root, _, files in os.walk(os.path.join(repo, 'src')):
        for f in files:
            paths.append(os.path.join(root, f))
    for d in extra_dirs:
        for root, dirs, files in os.walk(d):
            dirs[:] = [x for x in dirs if x not in ('__pycache__',)]
            for f in files:
                if f.endswith('.pyc'): continue
                paths.append(os.path.join(root, f))
    for p in sorted(paths):
        h.update(p.encode()); h.update(b'\0'); h.update(open(p, 'rb').read()); h.update(b'\0')
    return h.hexdigest()[:24]


def is_cfg_test(src, it):
    return '#[cfg(test)]' in src[it['start']:it['kw']]


class Unit:
    """One function as emitted: path, kind (verified/trusted/external/ignored), generated line span, source file+lines."""
    def __init__(self, path, mod, kind, src_line, reason=''):
        self.path = path; self.mod = mod; self.kind = kind; self.src_line = src_line; self.reason = reason
        self.gen_lo = None; self.gen_hi = None
        self.clauses = {}   # generated line -> label
        self.name = None    # instruction NAME if this is a registry unit


def fn_path(mod, it):
    p = it.get('parent')
    if p is not None and p['kind'] == 'impl':
        ty, tr = impl_type_name(p['header'])
        return '%s::%s::%s%s' % (mod, ty, (tr + '::') if tr else '', it['name'])
    if p is not None and p['kind'] == 'trait':
        return '%s::%s::%s' % (mod, p['name'], it['name'])
    return '%s::%s' % (mod, it['name'])


def r7_matches(src, lo, hi, mask=None):
    """(start, end, operand) of every `OPERAND as f32` in src[lo:hi] (operand = unary/postfix expression before `as`)"""
    res = []
    for m in re.finditer(r'\s+as\s+f32\b', src[lo:hi]):
        p = lo + m.start()
        if mask is not None and mask[lo + m.end() - 1] != ord('c'): continue
        i = p - 1
        while i > lo and src[i].isspace(): i -= 1
        while i > lo:
            ch = src[i]
            if ch in ')]':
                d = 0
                while i > lo:
                    if src[i] in ')]': d += 1
                    elif src[i] in '([':
                        d -= 1
                        if d == 0: break
                    i -= 1
                i -= 1
            elif ch.isalnum() or ch in '._':
                i -= 1
            elif ch == ':' and src[i - 1] == ':':
                i -= 2
            else:
                break
        start = i + 1
        while start - 1 > lo and src[start - 1] in '*-&!' and not (src[start - 2].isalnum() or src[start - 2] in ')]_'):
            start -= 1
        operand = src[start:p].strip()
        if operand and '|' not in operand:
            res.append((start, lo + m.end(), operand))
    return res


def r7_rewrite_string(text):
    out = text
    for a0, b0, op0 in sorted(r7_matches(' ' + text, 0, len(text) + 1), reverse=True):
        out = out[:a0 - 1] + 'crate::spec::cast_f32(%s)' % op0 + out[b0 - 1:]
    return out


def apply_rewrites(src, mask, it, ed, stats, spec_entry):
    """R3/R4/R5 inside the body of fn item `it` (see DESIGN 2.1). Purely syntactic, pattern driven."""
    lo, hi = it['body_start'], it['end']
    body = src[lo:hi]
    # R5a: match arm pattern `&_ =>`
    for m in re.finditer(r'&_\s*=>', body):
        if mask[lo + m.start()] == ord('c'):
            ed.replace(lo + m.start(), lo + m.start() + 1, ''); stats['R5_refpat'] += 1
    # R1: `(E.execute)(a, b)` => `instruction_execute(E, a, b)` (Verus has no calls through Box<dyn FnMut>);
    #     the wrapper (spec/interpreter.vspec, ghost of mod instructions) has the original expression as its body.
    for m in re.finditer(r'\(\s*([A-Za-z_][A-Za-z0-9_]*)\.execute\s*\)\s*\(', body):
        if mask[lo + m.start()] != ord('c'): continue
        ed.replace(lo + m.start(), lo + m.end(), 'crate::push::instructions::instruction_execute(%s, ' % m.group(1))
        stats['R1_call_wrap'] += 1
    # R3: `for PAT in EXPR { BODY }` whose body contains `continue` => the reference desugaring
    #     { let mut it = IntoIterator::into_iter(EXPR); loop { match it.next() { None => break, Some(PAT) => { BODY } } } }
    loops = find_loops(src, mask, lo + 1, hi - 1)
    for k, L in enumerate(loops):
        if L['kind'] != 'for': continue
        btxt = src[L['body_open']:L['body_close']]
        hdr = src[L['kw']:L['body_open']]
        if not any(mask[L['body_open'] + m.start()] == ord('c') for m in re.finditer(r'\bcontinue\b', btxt)) and not re.search(r'\.split_whitespace\(\)\s*$', hdr):
            continue        # (a loop over SplitWhitespace is always desugared: Verus has no for-loop support for that iterator)
        m = re.match(r'for\s+(.+?)\s+in\s+(.+?)\s*$', hdr, re.S)
        if not m: raise ToolError('R3: cannot parse for header %r' % hdr)
        pat, expr = m.group(1), m.group(2)
        auto = ''
        if re.search(r'\.\.', expr) and not (spec_entry and k in spec_entry['loops'] and 'decreases' in spec_entry['loops'][k]):
            auto = '\n            invariant r3_it%d.start <= r3_it%d.end,\n' % (k, k)
            if spec_entry and k in spec_entry['loops']:
                auto = '\n'
            else:
                auto += '            decreases r3_it%d.end - r3_it%d.start,\n        ' % (k, k)
        into = expr if re.search(r'\.split_whitespace\(\)\s*$', expr) else 'IntoIterator::into_iter(%s)' % expr     # SplitWhitespace is an Iterator: into_iter is the identity
        ed.replace(L['kw'], L['body_open'], '{ let mut r3_it%d = %s; loop %s' % (k, into, auto))
        ed.insert(L['body_open'] + 1, ' match r3_it%d.next() { None => break, Some(%s) => {' % (k, pat), prio=-10)
        ed.insert(L['body_close'], '} } ', prio=10)
        ed.insert(L['body_close'] + 1, ' }', prio=10)
        stats['R3_for_continue'] += 1
    # R6: `a == b` / `a != b` between two reference-typed scalar PARAMETERS => `*a == *b` (std's `impl PartialEq<&B> for &mut A`
    #     delegates to the pointees; Verus has no specification for the mixed &mut/& impl)
    sig = src[it['kw']:it['body_start']]
    refparams = [m.group(1) for m in re.finditer(r'([A-Za-z_][A-Za-z0-9_]*)\s*:\s*&\s*(?:mut\s+)?(?:usize|u32|u64|i32|i64|bool|f32)\b', sig)]
    if len(refparams) >= 2:
        alt = '|'.join(map(re.escape, refparams))
        for m in re.finditer(r'(?<![\w\.\*&])(%s)\s*(==|!=)\s*(%s)(?![\w\.\(\[])' % (alt, alt), body):
            if mask[lo + m.start()] != ord('c'): continue
            ed.replace(lo + m.start(), lo + m.end(), '*%s %s *%s' % (m.group(1), m.group(2), m.group(3)))
            stats['R6_refcmp'] = stats.get('R6_refcmp', 0) + 1
    # R7: `E as f32` => `cast_f32(E)` (Verus cannot translate `usize as f32`; the wrapper's body is the cast itself).
    #     Statements rewritten by R4 get the same treatment inside their replacement text (see r7_rewrite_string).
    r4_ranges = []
    for m in re.finditer(r'(?<![-+*/&|<>=!%^])(\+|-|\*|/|&|\|)=(?!=)', body):
        if mask[lo + m.start()] == ord('c'):
            j = lo + m.end()
            while j < hi and not (mask[j] == ord('c') and src[j] in ';,}'): j += 1
            i = lo + m.start()
            while i > lo and not (mask[i] == ord('c') and src[i] in ';{},'): i -= 1
            r4_ranges.append((i, j))
    r7 = [(a0, b0, op0) for (a0, b0, op0) in r7_matches(src, lo, hi, mask) if not any(x <= a0 and b0 <= y + 1 for x, y in r4_ranges)]
    # R7b: `E as usize` where E is textually a float expression (starts with `f32::`) => f32_to_usize(E) (no `f32 as usize` in Verus)
    r7b = []
    for m in re.finditer(r'(f32::\w+\s*\()', body):
        s0 = lo + m.start()
        if mask[s0] != ord('c'): continue
        j = lo + m.end() - 1; d = 0
        while j < hi:
            if mask[j] == ord('c'):
                if src[j] == '(': d += 1
                elif src[j] == ')':
                    d -= 1
                    if d == 0: break
            j += 1
        m2 = re.match(r'\s+as\s+usize\b', src[j + 1:hi])
        if m2:
            r7b.append((s0, j + 1, j + 1 + m2.end(), 'f32_to_usize'))
    # R7d: `( E ) as i32` where E is a parenthesised arithmetic expression containing an `as f32` cast (hence float-typed; comparisons excluded)
    for m in re.finditer(r'\)\s+as\s+i32\b', body):
        pc = lo + m.start()
        if mask[pc] != ord('c'): continue
        i = pc; d = 0
        while i > lo:
            if mask[i] == ord('c'):
                if src[i] == ')': d += 1
                elif src[i] == '(':
                    d -= 1
                    if d == 0: break
            i -= 1
        if i <= lo or src[i - 1].isalnum() or src[i - 1] in '_>': continue      # a call's argument list, not a parenthesised expression
        inner = src[i + 1:pc]
        if not re.search(r'\bas\s+f32\b', inner) or re.search(r'[<>]|==|!=|&&|\|\|', inner): continue
        r7b.append((i, pc + 1, lo + m.end(), 'f32_to_i32'))
    for (a0, b0, op0) in r7:
        inner = [x for x in r7b if x[0] <= a0 and b0 <= x[1]]
        if inner: continue
        # non-destructive: edits inside the operand (loop overlays of an R9-desugared adapter ...) must survive
        mm = re.search(r'\s+as\s+f32$', src[a0:b0])
        ed.insert(a0, 'crate::spec::cast_f32(', prio=-30)
        ed.replace(a0 + mm.start(), b0, ')')
        stats['R7_cast_f32'] = stats.get('R7_cast_f32', 0) + 1
    for (s0, e0, end0, wfn) in r7b:
        ed.replace(s0, end0, 'crate::spec::%s(%s)' % (wfn, r7_rewrite_string(src[s0:e0])))
        stats['R7_cast_f32'] = stats.get('R7_cast_f32', 0) + 1
    # R7e: `X as i32` where X is bound by `Some(X) = ...float_stack.pop()/copy(..)/get(..)` in this function (hence an f32) => f32_to_i32(X)
    for fm in re.finditer(r'Some\(\s*([a-z_]\w*)\s*\)\s*=\s*[\w.]*float_stack\s*\.\s*(?:pop|copy|get)\s*\(', body):
        for m in re.finditer(r'(?<![\w.])%s\s+as\s+i32\b' % re.escape(fm.group(1)), body):
            if mask[lo + m.start()] != ord('c'): continue
            if any(x <= lo + m.start() and lo + m.end() <= y + 1 for x, y in r4_ranges): continue
            ed.replace(lo + m.start(), lo + m.end(), 'crate::spec::f32_to_i32(%s)' % fm.group(1))
            stats['R7_cast_f32'] = stats.get('R7_cast_f32', 0) + 1
    # R7c: the constant `std::f32::consts::PI` => `f32_pi()` (wrapper returning the constant; Verus has no spec for core::f32::consts)
    for m in re.finditer(r'\b(?:std|core)::f32::consts::PI\b', body):
        if mask[lo + m.start()] != ord('c'): continue
        if any(x <= lo + m.start() and lo + m.end() <= y + 1 for x, y in r4_ranges): continue
        ed.replace(lo + m.start(), lo + m.end(), 'crate::spec::f32_pi()')
        stats['R7_cast_f32'] = stats.get('R7_cast_f32', 0) + 1
    for m in re.finditer(r'\b(?:std|core)::f32::consts::(TAU|E|FRAC_PI_2|FRAC_PI_3|FRAC_PI_4|FRAC_PI_6|FRAC_PI_8|FRAC_1_PI|FRAC_2_PI|FRAC_2_SQRT_PI|SQRT_2|FRAC_1_SQRT_2|LN_2|LN_10|LOG2_E|LOG2_10|LOG10_E|LOG10_2)\b', body):
        if mask[lo + m.start()] != ord('c'): continue
        if any(x <= lo + m.start() and lo + m.end() <= y + 1 for x, y in r4_ranges): continue
        ed.replace(lo + m.start(), lo + m.end(), 'crate::spec::f32_const_%s()' % m.group(1).lower())
        stats['R7_cast_f32'] = stats.get('R7_cast_f32', 0) + 1
    for m in re.finditer(r'(?<![\w:])(?:(?:std|core)::)?f32::(MAX|MIN|INFINITY|NEG_INFINITY|EPSILON|NAN)\b', body):
        if mask[lo + m.start()] != ord('c'): continue
        if any(x <= lo + m.start() and lo + m.end() <= y + 1 for x, y in r4_ranges): continue
        ed.replace(lo + m.start(), lo + m.end(), 'crate::spec::f32_%s()' % {'MAX': 'max_value', 'MIN': 'min_value', 'INFINITY': 'infinity', 'NEG_INFINITY': 'neg_infinity', 'EPSILON': 'epsilon', 'NAN': 'nan'}[m.group(1)])
        stats['R7_cast_f32'] = stats.get('R7_cast_f32', 0) + 1
    # R15: the str operations of the parser become wrappers whose bodies are the original expressions (their results stay uninterpreted):
    #   X.starts_with("LIT")          => ({ proof { reveal_strlit("LIT"); } starts_with_lit(X, "LIT") })   [ensures: true => byte offset |LIT| is a char boundary inside X]
    #   X[N..]                        => str_tail(X, N)                                                     [requires that boundary fact: the slice cannot panic]
    #   E.strip_suffix("LIT")         => strip_suffix_lit(E, "LIT");   X.split("LIT") => split_lit(X, "LIT") (the pieces, collected)
    #   X.to_string().parse::<T>()    => parse_i32 / parse_f32(&X.to_string());   X.parse::<T>() => parse_i32_str / parse_f32_str(&*X)
    LIT = r'("(?:[^"\\]|\\.)*"|\'(?:[^\'\\]|\\.)\')'          # a string literal, or a char literal (the same pattern as the one-character string)
    def aslit(t):
        if t.startswith('"'): return t
        c = t[1:-1]
        return '"%s"' % ('\\"' if c == '"' else ("'" if c == "\\'" else c))
    for m in re.finditer(r'(?<![\w.])([a-z_]\w*)\.(starts_with|ends_with)\(\s*%s\s*\)' % LIT, body):
        if mask[lo + m.start()] != ord('c'): continue
        lit = aslit(m.group(3))
        ed.replace(lo + m.start(), lo + m.end(), '({ proof { reveal_strlit(%s); } crate::spec::%s_lit(%s, %s) })' % (lit, m.group(2), m.group(1), lit))
        stats['R15_str'] = stats.get('R15_str', 0) + 1
    for m in re.finditer(r'(?<![\w.])([a-z_]\w*)\[\s*(\d+)\s*\.\.\s*\](\.strip_suffix\(\s*%s\s*\))?' % LIT, body):
        if mask[lo + m.start()] != ord('c'): continue
        t = 'crate::spec::str_tail(%s, %s)' % (m.group(1), m.group(2))
        if m.group(3): t = 'crate::spec::strip_suffix_lit(%s, %s)' % (t, aslit(m.group(4)))
        ed.replace(lo + m.start(), lo + m.end(), t)
        stats['R15_str'] = stats.get('R15_str', 0) + 1
    for m in re.finditer(r'(?<![\w.\]])([a-z_]\w*)\.(strip_suffix|strip_prefix)\(\s*%s\s*\)' % LIT, body):
        if mask[lo + m.start()] != ord('c'): continue
        ed.replace(lo + m.start(), lo + m.end(), 'crate::spec::%s_lit(%s, %s)' % (m.group(2), m.group(1), aslit(m.group(3))))
        stats['R15_str'] = stats.get('R15_str', 0) + 1
    for m in re.finditer(r'(?<![\w.])([a-z_]\w*)\.(split|split_terminator|rsplit|split_inclusive)\(\s*%s\s*\)' % LIT, body):
        if mask[lo + m.start()] != ord('c'): continue
        ed.replace(lo + m.start(), lo + m.end(), 'crate::spec::%s_lit(%s, %s)' % (m.group(2), m.group(1), aslit(m.group(3))))
        stats['R15_str'] = stats.get('R15_str', 0) + 1
    for m in re.finditer(r'(?<![\w.])([a-z_]\w*)\.(trim_end_matches|trim_start_matches)\(\s*%s\s*\)' % LIT, body):
        if mask[lo + m.start()] != ord('c'): continue
        ed.replace(lo + m.start(), lo + m.end(), 'crate::spec::%s_lit(&*%s, %s)' % (m.group(2), m.group(1), aslit(m.group(3))))
        stats['R15_str'] = stats.get('R15_str', 0) + 1
    NUM = 'i8|i16|i32|i64|i128|isize|u8|u16|u32|u64|u128|usize|f32|f64'
    for m in re.finditer(r'(?<![\w.])([a-z_]\w*)\.to_string\(\)\.parse::<(%s)>\(\)' % NUM, body):
        if mask[lo + m.start()] != ord('c'): continue
        ed.replace(lo + m.start(), lo + m.end(), 'crate::spec::parse_%s_str(&*%s.to_string())' % (m.group(2), m.group(1)) if m.group(2) not in ('i32', 'f32') else 'crate::spec::parse_%s(&%s.to_string())' % (m.group(2), m.group(1)))
        stats['R15_str'] = stats.get('R15_str', 0) + 1
    for m in re.finditer(r'(?<![\w.])([a-z_]\w*)\.parse::<(%s)>\(\)' % NUM, body):          # the same on a string slice / String variable directly
        if mask[lo + m.start()] != ord('c'): continue
        ed.replace(lo + m.start(), lo + m.end(), 'crate::spec::parse_%s_str(&*%s)' % (m.group(2), m.group(1)))
        stats['R15_str'] = stats.get('R15_str', 0) + 1
    # R11b: `X.to_pstring()` (the crate's own printing trait, called on a generic element) => `to_pstring_w(X)` / `to_pstring_w(&X)`: wrapper whose body is
    #       that call; result `pstr_of(value)`, a deterministic, otherwise uninterpreted, function of the value (A-print)
    def r11b_text(x):
        is_ref = re.search(r'\blet\s+%s\s*=\s*&' % re.escape(x), body) or re.search(r'\bfor\s+%s\s+in\b[^{]*\.iter\(\)' % re.escape(x), body) \
            or re.search(r'[(,]\s*%s\s*:\s*&' % re.escape(x), src[it['kw']:it['body_start']])
        return 'crate::spec::to_pstring_w(%s%s)' % ('' if is_ref else '&', x)
    R11B = r'(?<![\w.])([a-z_]\w*)\.to_pstring\(\)'
    # R19: `format!(" {}", E)` / `format!("{}", E)` => `format_sp_display(&(E))` / `format_display(&(E))`: wrappers whose bodies are these very macro calls;
    #      the result is " " + str_of(E) / str_of(E) (A-print).  vstd's own specification of the formatting machinery has a precondition on the generic
    #      `Display` argument that cannot be met for an arbitrary T.
    r19_ranges = []
    for m in re.finditer(r'\bformat!\(\s*"( ?)\{\}"\s*,\s*', body):
        if mask[lo + m.start()] != ord('c'): continue
        pc = _close_paren(src, mask, lo + m.start() + len('format!'))
        if pc is None or pc > hi: continue
        args = split_args(src, mask, lo + m.end(), pc - 1)
        if args is None or len(args) != 1: continue
        arg = re.sub(R11B, lambda x: r11b_text(x.group(1)), src[lo + m.end():pc - 1].strip())
        ed.replace(lo + m.start(), pc, 'crate::spec::%s(&(%s))' % ('format_sp_display' if m.group(1) else 'format_display', arg) + '\n' * src.count('\n', lo + m.start(), pc))
        r19_ranges.append((lo + m.start(), pc))
        stats['R19_format'] = stats.get('R19_format', 0) + 1
    for m in re.finditer(R11B, body):
        if mask[lo + m.start()] != ord('c'): continue
        if any(a <= lo + m.start() < b for a, b in r19_ranges): continue
        ed.replace(lo + m.start(), lo + m.end(), r11b_text(m.group(1)))
        stats['R11_to_string'] = stats.get('R11_to_string', 0) + 1
    # R20: the statement `M.entry(K).or_insert(V);` => `map_entry_or_insert(&mut M, K, V);` -- wrapper whose body is that statement (assumed contract from
    #      std's documentation: the value is inserted only if the key is absent).  vstd has no specification for the Entry API.
    for m in re.finditer(r'(?<![\w.])((?:[a-z_]\w*)(?:\.[a-z_]\w*)*)\.entry\(', body):
        if mask[lo + m.start()] != ord('c'): continue
        pc = _close_paren(src, mask, lo + m.end() - 1)
        if pc is None or pc > hi: continue
        m2 = re.match(r'\s*\.\s*or_insert\(', src[pc:])
        if not m2: continue
        pc2 = _close_paren(src, mask, pc + m2.end() - 1)
        if pc2 is None or pc2 > hi: continue
        m3 = re.match(r'\s*;', src[pc2:])
        # only as a statement of its own (the returned `&mut V` is not used)
        prev = src[:lo + m.start()].rstrip()
        if not m3 or not prev or prev[-1] not in ';{}': continue
        K = src[lo + m.end():pc - 1].strip(); V = src[pc + m2.end():pc2 - 1].strip()
        ed.replace(lo + m.start(), pc2, 'crate::spec::map_entry_or_insert(&mut %s, %s, %s)' % (m.group(1), K, V) + '\n' * src.count('\n', lo + m.start(), pc2))
        stats['R20_entry_or_insert'] = stats.get('R20_entry_or_insert', 0) + 1
    # R17: `Vec::with_capacity(E)` => `vec_with_capacity(E)`: a wrapper whose body is that call and whose precondition is the allocation bound of the
    #      resource envelope (E <= 2^31-1 elements); vstd's own contract of with_capacity has no precondition, so a capacity computed from a negative
    #      operand (`n as usize`, a capacity-overflow panic) would go unnoticed
    for m in re.finditer(r'(?<![\w:])Vec::(<[^<>()]*>::)?with_capacity\s*\(', body):
        if mask[lo + m.start()] != ord('c'): continue
        ed.replace(lo + m.start(), lo + m.end(), 'crate::spec::vec_with_capacity%s(' % ('::' + m.group(1)[:-2] if m.group(1) else ''))
        stats['R17_with_capacity'] = stats.get('R17_with_capacity', 0) + 1
    # R13: the two comparator closures the crate sorts with: `E.sort_by(|a, b| a.partial_cmp(b).unwrap());` / `E.sort_by(|a, b| a.total_cmp(b));`
    #      => named wrappers whose bodies are these very calls (assumed contracts: a permutation ordered by the comparator)
    for x in re.finditer(r'(?<![\w.])((?:\*?[A-Za-z_]\w*)(?:\.[A-Za-z_]\w*)*)\.sort_by\s*\(\s*\|\s*(\w+)\s*,\s*(\w+)\s*\|\s*(\w+)\.(partial_cmp\(\s*(\w+)\s*\)\.unwrap\(\)|total_cmp\(\s*(\w+)\s*\))\s*\)\s*;', body):
        if mask[lo + x.start()] != ord('c'): continue
        E, A, B, recv = x.group(1), x.group(2), x.group(3), x.group(4)
        arg = x.group(6) or x.group(7)
        if recv != A or arg != B: continue          # only the ascending form `|a, b| a.cmp(b)`
        fn_ = 'sort_by_partial_cmp' if x.group(5).startswith('partial') else 'sort_by_total_cmp'
        ed.replace(lo + x.start(), lo + x.end(), 'crate::spec::%s(&mut %s);' % (fn_, E) + '\n' * src.count('\n', lo + x.start(), lo + x.end()))
        stats['R13_sort_by'] = stats.get('R13_sort_by', 0) + 1
    # R11: `V[N].to_string()` (an element of a local vector, printed through its Display impl) => `to_string_w(&V[N])`: a wrapper whose body is
    #      the original call; its result is a deterministic, otherwise uninterpreted, function of the value (`str_of`).  vstd's own contract of
    #      ToString::to_string says nothing about the result, so two printed forms could not even be compared.
    for m in re.finditer(r'\]\.to_string\(\)', body):
        pc = lo + m.start()          # the closing bracket of an index expression
        if mask[pc] != ord('c'): continue
        i = pc; d = 0
        while i > lo:
            if mask[i] == ord('c'):
                if src[i] in ')]': d += 1
                elif src[i] in '([':
                    d -= 1
                    if d == 0: break
            i -= 1
        j = i - 1
        while j > lo and (src[j].isalnum() or src[j] in '_.'): j -= 1
        recv = src[j + 1:pc + 1]
        if not re.match(r'[A-Za-z_][\w.]*\[', recv): continue
        ed.replace(j + 1, lo + m.end(), 'crate::spec::to_string_w(&%s)' % recv)
        stats['R11_to_string'] = stats.get('R11_to_string', 0) + 1
    # ... and a bare parameter / annotated local of reference type: `P.to_string()` => `to_string_w(P)`
    sig11 = src[it['kw']:it['body_start']]
    refnames = [pm.group(1) for pm in re.finditer(r'\b([a-z_]\w*)\s*:\s*&\s*(?:\'\w+\s+)?([A-Z]\w*)\b', sig11)]
    refnames += [pm.group(1) for pm in re.finditer(r'\blet\s+([a-z_]\w*)\s*:\s*&\s*([A-Z]\w*)\b', body)]
    for pm in re.finditer(r'\blet\s*\(([^()]*)\)\s*:\s*\(([^()]*)\)\s*=', body):      # the tuple binding R8 emits for an inlined helper
        ns = [x.strip() for x in pm.group(1).split(',')]; ts = [x.strip() for x in pm.group(2).split(',')]
        if len(ns) == len(ts):
            refnames += [n for n, t in zip(ns, ts) if re.match(r'&\s*[A-Z]\w*$', t) and re.match(r'[a-z_]\w*$', n)]
    for rn in dict.fromkeys(refnames):
        pm = re.match(r'(.*)', rn)
        for m in re.finditer(r'(?<![\w.\]])%s\.to_string\(\)' % re.escape(pm.group(1)), body):
            if mask[lo + m.start()] != ord('c'): continue
            ed.replace(lo + m.start(), lo + m.end(), 'crate::spec::to_string_w(%s)' % pm.group(1))
            stats['R11_to_string'] = stats.get('R11_to_string', 0) + 1
    # R5b: `for &x in E { B }` => `for x in E { let x = *x; B }` (reference pattern on a Copy element)
    for L in loops:
        if L['kind'] != 'for': continue
        hdr = src[L['kw']:L['body_open']]
        m = re.match(r'for\s+&\s*([A-Za-z_][A-Za-z0-9_]*)\s+in\s+', hdr)
        if not m: continue
        amp = L['kw'] + hdr.index('&')
        ed.replace(amp, amp + 1, '')
        ed.insert(L['body_open'] + 1, ' let %s = *%s;' % (m.group(1), m.group(1)), prio=-9)
        stats['R5_refpat'] += 1
    # R4: `LHS op= RHS` => `{ let t = RHS; LHS = LHS op' t; }` for op in + - * / (Verus ICE on the f32 compound
    # form) and & | (=> && ||: Verus has no & | on bool).  Applied to every such statement, whatever the type:
    # for integers the two forms have the same checks in the same order.  `%=` is left alone.
    k = 0
    for m in re.finditer(r'(?<![-+*/&|<>=!%^])(\+|-|\*|/|&|\|)=(?!=)', body):
        p = lo + m.start()
        if mask[p] != ord('c'): continue
        # LHS: back to the previous statement boundary
        i = p - 1; d = 0
        while i > lo:
            if mask[i] == ord('c'):
                ch = src[i]
                if ch in ')]': d += 1
                elif ch in '([':
                    if d == 0: break
                    d -= 1
                elif d == 0 and (ch in ';{},' or (ch == '>' and src[i - 1] == '=')):
                    break
            i -= 1
        lhs_lo = i + 1
        lhs = src[lhs_lo:p].strip()
        if not re.match(r'^[\w\.\[\]\*\s\(\)]+$', lhs):
            stats['R4_skipped'] = stats.get('R4_skipped', 0) + 1
            continue
        # RHS: forward to ; or , or } at depth 0
        j = lo + m.end(); d = 0
        while j < hi:
            if mask[j] == ord('c'):
                ch = src[j]
                if ch in '([{': d += 1
                elif ch in ')]}':
                    if d == 0: break
                    d -= 1
                elif d == 0 and ch in ';,':
                    break
            j += 1
        rhs = src[lo + m.end():j].strip()
        op = m.group(1); op2 = {'&': '&&', '|': '||'}.get(op, op)
        lead = src[lhs_lo:p][:len(src[lhs_lo:p]) - len(src[lhs_lo:p].lstrip())]
        semi = ';' if src[j] == ';' else ''
        end = j + 1 if src[j] == ';' else j
        ed.replace(lhs_lo, end, '%s{ let r4_t%d = %s; %s = %s %s r4_t%d; }' % (lead, k, r7_rewrite_string(rhs), lhs, lhs, op2, k))
        k += 1; stats['R4_compound'] += 1
    return


def _shape(text):
    """the shape of an initialiser / scrutinee: identifiers and paths become `#`, literals and operators stay, blanks go"""
    t = re.sub(r'//[^\n]*', '', text)
    t = re.sub(r'[A-Za-z_][\w]*(?:\s*(?:::|\.)\s*[A-Za-z_]\w*)*', '#', t)
    t = re.sub(r'\s+', '', t)
    return t[:60]


def fn_binders(src, mask, it):
    """ordered (kind, shape, name) list of the names a function binds: parameters, let / for / Some(..)|Ok(..)|Err(..) patterns, `{ items: x }`;
    shape = what the name is bound to (see _shape), so that a renamed local is recognised even when other locals were added around it"""
    out = []
    sig_lo, body_lo, hi = it['kw'], it['body_start'], it['end']
    for m in re.finditer(r'[(,]\s*(?:mut\s+)?([a-z_]\w*)\s*:(?!:)\s*([^,)]*)', src[sig_lo:body_lo]):
        if mask[sig_lo + m.start(1)] == ord('c'): out.append((sig_lo + m.start(1), 'param', _shape(m.group(2)), m.group(1)))
    body = src[body_lo:hi]
    def rhs(pos, stop=';'):
        j = pos; d = 0
        while j < len(body) and j < pos + 400:
            ch = body[j]
            if ch in stop and d == 0: break
            if ch in '([{': d += 1
            elif ch in ')]}':
                if d == 0: break
                d -= 1
            j += 1
        return body[pos:j]
    for kind, rx, stop in [('let', r'\blet\s+(?:mut\s+)?([a-z_]\w*)\b(?!\s*\()[^=;]*=', ';'), ('let', r'\blet\s*\(\s*(?:mut\s+)?([a-z_]\w*)\s*,\s*(?:mut\s+)?([a-z_]\w*)\s*\)[^=;]*=', ';'),
                           ('for', r'\bfor\s+([a-z_]\w*)\s+in\b', '{'), ('for', r'\bfor\s*\(\s*([a-z_]\w*)\s*,\s*([a-z_]\w*)\s*\)\s+in\b', '{'),
                           ('pat', r'\b(?:Some|Ok|Err)\(\s*(?:mut\s+)?([a-z_]\w*)\s*\)\s*(?:=>|=(?!=))', '{;,'), ('pat', r'\{\s*items\s*:\s*([a-z_]\w*)\s*\}', ''), ('pat', r'List\s*\{\s*(items)\s*\}', ''),
                           ('clo', r'\|\s*&?\s*([a-z_]\w*)\s*\|', ''), ('clo', r'\|\s*([a-z_]\w*)\s*,\s*([a-z_]\w*)\s*\|', '')]:
        for m in re.finditer(rx, body):
            sh = _shape(rhs(m.end(), stop)) if stop else ''
            if kind == 'pat' and body[m.end() - 2:m.end()] == '=>': sh = ''     # a match arm: the scrutinee is elsewhere
            for g in range(1, (m.lastindex or 0) + 1):
                a = body_lo + m.start(g)
                if mask[a] == ord('c'): out.append((a, kind, sh, m.group(g)))
    out.sort()
    return [(k, sh, n) for _, k, sh, n in out if not n.startswith('_') and not re.match(r'r\d+_', n) and n not in ('self', 'mut')]


def binder_renames(then, now):
    """old -> new for the binders that were merely renamed since the overlays were written.  The two binder lists are aligned on
    (kind, shape) with difflib; a name that differs inside a matched stretch -- or inside a replaced stretch of equal length and equal
    kinds -- is a candidate.  A candidate is used only if the old name is gone from the function, the new name is fresh, and the old
    name has a single target: reordering statements, adding locals or removing locals never renames anything."""
    if not then or not now: return {}
    import difflib
    then = [tuple(x) if len(x) == 3 else (x[0], '', x[1]) for x in then]
    then_names = set(x[2] for x in then); now_names = set(x[2] for x in now)
    cand = {}
    for rnd, key in enumerate((lambda x: (x[0], x[1]), lambda x: x[0])):       # with shapes first; kinds alone only for names the first pass left open
        settled = set(cand); taken = set(n for ns in cand.values() for n in ns)
        sm = difflib.SequenceMatcher(a=[key(x) for x in then], b=[key(x) for x in now], autojunk=False)
        for tag, i1, i2, j1, j2 in sm.get_opcodes():
            if tag == 'equal' or (tag == 'replace' and (i2 - i1) == (j2 - j1) and all(then[i1 + d][0] == now[j1 + d][0] for d in range(i2 - i1))):
                for d in range(i2 - i1):
                    o, n = then[i1 + d][2], now[j1 + d][2]
                    if o != n and o not in settled and n not in taken: cand.setdefault(o, set()).add(n)
    ren = {}
    for o, ns in cand.items():
        if len(ns) != 1: continue
        n = next(iter(ns))
        if o in now_names or n in then_names: continue
        ren[o] = n
    if len(set(ren.values())) != len(ren): return {}
    return ren


def rename_in_overlay(text, ren):
    if not ren or not text: return text
    lines = []
    for ln in text.split('\n'):
        if ln.strip().startswith('//bind'): lines.append(ln); continue
        for o, n in ren.items():
            ln = re.sub(r'(?<![\w.>:$])%s(?![\w(])' % re.escape(o), n, ln)
        lines.append(ln)
    return '\n'.join(lines)


def resolve_placeholders(text, fn_src, path):
    """`$<name>` placeholders in overlay text are bound by `@@ bind`-style definitions at the top of the text:
    a line `//bind name = REGEX` binds name to group 1 of the first match of REGEX in the function's own source text,
    so that invariants follow a renaming of the locals they mention."""
    binds = dict(re.findall(r'//bind (\w+) = (.*)', text))
    if not binds: return text
    out = re.sub(r'[ \t]*//bind \w+ = .*\n', '', text)
    for name, rx in binds.items():
        m = re.search(rx.strip(), fn_src)
        if not m:
            raise ToolError('lost anchor: %s: no match for local `%s` (%s)' % (path, name, rx.strip()))
        out = re.sub(r'\$%s\b' % name, m.group(1), out)
    return out


def it_line(src, it):
    return src.count('\n', 0, it['start']) + 1


def first_param(src, it):
    m = re.search(r'\(\s*(?:mut\s+)?([A-Za-z_][A-Za-z0-9_]*)\s*:', src[it['kw']:it['body_start']])
    return m.group(1) if m else None


def split_args(src, mask, lo, hi):
    """top-level comma split of src[lo:hi] (code mask aware); returns list of stripped argument texts, or None if unbalanced"""
    args = []; d = 0; a = lo
    for i in range(lo, hi):
        if mask[i] != ord('c'): continue
        ch = src[i]
        if ch in '([{': d += 1
        elif ch in ')]}':
            d -= 1
            if d < 0: return None
        elif ch == ',' and d == 0:
            args.append(src[a:i].strip()); a = i + 1
    if d != 0: return None
    last = src[a:hi].strip()
    if last or args: args.append(last)
    if args and args[-1] == '': args.pop()      # trailing comma
    return args


def one_line(src, mask, lo, hi):
    """src[lo:hi] with comments removed and newlines collapsed (string literals kept)"""
    out = []; i = lo
    while i < hi:
        if mask[i] != ord('c') and src.startswith('//', i):
            j = src.find('\n', i)
            i = hi if j < 0 or j > hi else j
            out.append(' '); continue
        if mask[i] != ord('c') and src.startswith('/*', i):
            j = src.find('*/', i + 2)
            i = hi if j < 0 or j + 2 > hi else j + 2
            out.append(' '); continue
        out.append(src[i]); i += 1
    return re.sub(r'\s+', ' ', ''.join(out)).strip()


def _close_paren(src, mask, po):
    """index just past the parenthesis that closes the one opened at src[po]"""
    d = 0; i = po
    while i < len(src):
        if mask[i] == ord('c'):
            if src[i] in '([{': d += 1
            elif src[i] in ')]}':
                d -= 1
                if d == 0: return i + 1
        i += 1
    return None


SELFTEST_SHIM = '\npub mod spec { pub fn f32_sum_identity() -> f32 { let e: [f32; 0] = []; e.iter().sum() } }\n'


def r9_desugar_iterators(srcs, stats):
    """R9: the slice-iterator adapters Verus cannot translate are replaced by the loops they stand for (std's documented semantics of
    enumerate / fold / filter+count / position / for_each on a slice iterator; E is a place expression made of identifiers and field
    accesses, closures are single expressions over their parameters).  Every replacement stays on the lines of the original text.
      a  for (I, X) in E.iter().enumerate() {      =>  for I in 0..E.len() { let X = &E[I];        (with .rev(): &E[E.len() - 1 - I])
      b  E.iter().fold(INIT, |A, X| BODY)          =>  ({ let mut A = INIT; for X in E.iter() { A = BODY; } A })
      d  E.iter().filter(|&N| COND).count()        =>  ({ let mut r9_c: usize = 0; for N in E.iter() { if COND { r9_c += 1; } } r9_c })
      e  E.iter_mut().for_each(|X| *X OP= RHS)     =>  for r9_k in 0..E.len() { E[r9_k] OP= RHS; }          (statement position)
      h  E.keys().cloned().collect()               =>  ({ let mut r9_v = Vec::new(); for r9_kv in E.iter() { r9_v.push(r9_kv.0.clone()); } r9_v })
      g  E.retain(|X| COND);                       =>  { let mut r9_k = 0; while r9_k < E.len() { if ({ let X = &E[r9_k]; COND }) { r9_k += 1; } else { E.remove(r9_k); } } }
      f  E.iter().position(|X| BODY)               =>  ({ let mut r9_p: Option<usize> = None; for r9_k in 0..E.len() { let X = &E[r9_k];
                                                          if r9_p.is_none() && (BODY) { r9_p = Some(r9_k); } } r9_p })
    Test modules are left alone.  The bounded Kani harnesses of the thorough tier run the ORIGINAL adapter code against the same facts."""
    PLACE = r'(?<![\w.])((?:\*?[A-Za-z_]\w*)(?:\s*\.\s*[A-Za-z_]\w*)*)\s*'       # a place expression; its segments may sit on separate lines
    out = {}
    for m_, src in srcs.items():
        mask = rsitems.scan_tokens(src)
        its = rsitems.items(src, mask=mask)
        test_spans = [(x['start'], x['end']) for x in its if x['kind'] == 'mod' and is_cfg_test(src, x)]
        def live(a): return mask[a] == ord('c') and not any(lo <= a < hi for lo, hi in test_spans)
        edits = []      # (a, b, text)
        def nl(a, b): return '\n' * src.count('\n', a, b)
        # a: enumerate in a for header
        for x in re.finditer(r'\bfor\s*\(\s*(\w+)\s*,\s*(\w+)\s*\)\s+in\s+' + PLACE + r'\.iter\(\)\.enumerate\(\)\s*\{', src):
            if not live(x.start()): continue
            I, X, E = x.group(1), x.group(2), re.sub(r'\s+', '', x.group(3))
            Iv = I if not I.startswith('_') else 'r9_i'
            edits.append((x.start(), x.end(), 'for %s in 0..%s.len() { let %s = &%s[%s];' % (Iv, E, X, E, Iv) + nl(x.start(), x.end()), 'R9a_enumerate'))
        # a': enumerate over the reversed slice
        for x in re.finditer(r'\bfor\s*\(\s*(\w+)\s*,\s*(\w+)\s*\)\s+in\s+' + PLACE + r'\.iter\(\)\.rev\(\)\.enumerate\(\)\s*\{', src):
            if not live(x.start()): continue
            I, X, E = x.group(1), x.group(2), re.sub(r'\s+', '', x.group(3))
            Iv = I if not I.startswith('_') else 'r9_i'
            edits.append((x.start(), x.end(), 'for %s in 0..%s.len() { let %s = &%s[%s.len() - 1 - %s];' % (Iv, E, X, E, E, Iv) + nl(x.start(), x.end()), 'R9a_enumerate'))
        # a'': the reversed slice without enumerate
        for x in re.finditer(r'\bfor\s+(\w+)\s+in\s+' + PLACE + r'\.iter\(\)\.rev\(\)\s*\{', src):
            if not live(x.start()): continue
            X, E = x.group(1), re.sub(r'\s+', '', x.group(2))
            edits.append((x.start(), x.end(), 'for r9_i in 0..%s.len() { let %s = &%s[%s.len() - 1 - r9_i];' % (E, X, E, E) + nl(x.start(), x.end()), 'R9a_enumerate'))
        # b/d/f: expression forms
        for x in re.finditer(PLACE + r'\.iter\(\)\s*\.\s*(fold|filter|position)\s*\(', src):
            if not live(x.start()): continue
            E, kind = re.sub(r'\s+', '', x.group(1)), x.group(2)
            po = x.end() - 1; pc = _close_paren(src, mask, po)
            if pc is None: continue
            inner = src[po + 1:pc - 1]
            if kind == 'fold':
                mm = re.match(r'\s*(.+?)\s*,\s*\|\s*(\w+)\s*,\s*(\w+)\s*\|\s*(.+?)\s*$', inner, re.S)
                if not mm or '|' in mm.group(4) or '{' in mm.group(4): continue
                INIT, A, X, BODY = mm.groups()
                edits.append((x.start(), pc, '({ let mut %s = %s; for %s in %s.iter() { %s = %s; } %s })' % (A, INIT, X, E, A, one_line(BODY, rsitems.scan_tokens(BODY), 0, len(BODY)), A) + nl(x.start(), pc), 'R9b_fold'))
            elif kind == 'position':
                mm = re.match(r'\s*\|\s*(\w+)\s*\|\s*(.+?)\s*$', inner, re.S)
                if not mm or '|' in mm.group(2) or '{' in mm.group(2): continue
                X, BODY = mm.groups()
                edits.append((x.start(), pc, '({ let mut r9_p: Option<usize> = None; for r9_k in 0..%s.len() { let %s = &%s[r9_k]; if r9_p.is_none() && (%s) { r9_p = Some(r9_k); } } r9_p })'
                              % (E, X, E, one_line(BODY, rsitems.scan_tokens(BODY), 0, len(BODY))) + nl(x.start(), pc), 'R9f_position'))
            else:
                mm = re.match(r'\s*\|\s*&\s*(\w+)\s*\|\s*(.+?)\s*$', inner, re.S)
                m2 = re.match(r'\s*\.\s*count\s*\(\s*\)', src[pc:])
                if not mm or not m2 or '|' in mm.group(2) or '{' in mm.group(2): continue
                N, COND = mm.groups()
                edits.append((x.start(), pc + m2.end(), '({ let mut r9_c: usize = 0; for %s in %s.iter() { if %s { r9_c += 1; } } r9_c })'
                              % (N, E, one_line(COND, rsitems.scan_tokens(COND), 0, len(COND))) + nl(x.start(), pc + m2.end()), 'R9d_filter_count'))
        # k: `E.iter().any(|X| COND)` / `E.iter().all(|X| COND)`: the closure is evaluated front to back until the answer is known (std: "short-circuiting")
        for x in re.finditer(PLACE + r'\.iter\(\)\s*\.\s*(any|all)\s*\(', src):
            if not live(x.start()): continue
            E, kind = re.sub(r'\s+', '', x.group(1)), x.group(2)
            po = x.end() - 1; pc = _close_paren(src, mask, po)
            if pc is None: continue
            mm = re.match(r'\s*\|\s*(&?)\s*(\w+)\s*\|\s*(.+?)\s*$', src[po + 1:pc - 1], re.S)
            if not mm or '|' in mm.group(3).replace('||', '') or '{' in mm.group(3): continue
            AMP, X, COND = mm.groups()
            cond = one_line(COND, rsitems.scan_tokens(COND), 0, len(COND))
            bind = 'let %s = %s%s[r9_k];' % (X, '' if AMP else '&', E)           # `|&x|` binds the element itself (Copy), `|x|` a reference to it
            if kind == 'any':
                t = '({ let mut r9_b: bool = false; for r9_k in 0..%s.len() { %s if !r9_b && (%s) { r9_b = true; } } r9_b })' % (E, bind, cond)
            else:
                t = '({ let mut r9_b: bool = true; for r9_k in 0..%s.len() { %s if r9_b && !(%s) { r9_b = false; } } r9_b })' % (E, bind, cond)
            edits.append((x.start(), pc, t + nl(x.start(), pc), 'R9k_any_all'))
        # e: for_each statement
        for x in re.finditer(PLACE + r'\.iter_mut\(\)\s*\.\s*for_each\s*\(', src):
            if not live(x.start()): continue
            E = re.sub(r'\s+', '', x.group(1))
            po = x.end() - 1; pc = _close_paren(src, mask, po)
            if pc is None: continue
            mm = re.match(r'\s*\|\s*(\w+)\s*\|\s*\*\s*(\w+)\s*(\+|-|\*|/)=\s*(.+?)\s*$', src[po + 1:pc - 1], re.S)
            m2 = re.match(r'\s*;', src[pc:])
            if not mm or not m2 or mm.group(1) != mm.group(2) or re.search(r'\b%s\b' % re.escape(mm.group(1)), mm.group(4)): continue
            edits.append((x.start(), pc + m2.end(), 'for r9_k in 0..%s.len() { %s[r9_k] %s= %s; }' % (E, E, mm.group(3), mm.group(4)) + nl(x.start(), pc + m2.end()), 'R9e_for_each'))
        # R12: `println!(..);` statements are dropped -- what a step writes to stdout is outside every property (the arguments are plain
        #      variables; formatting them has no effect on the state)
        for x in re.finditer(r'(?<![\w!])println!\s*\(', src):
            if not live(x.start()): continue
            pc = _close_paren(src, mask, x.end() - 1)
            m2 = re.match(r'\s*;', src[pc:]) if pc else None
            if not m2: continue
            edits.append((x.start(), pc + m2.end(), '/* R12: println! dropped */' + nl(x.start(), pc + m2.end()), 'R12_println_dropped'))
        # j: `for (_, V) in M.iter_mut() { BODY }` (HashMap::iter_mut has no vstd specification) => the keys are collected first, then every entry is
        #    visited through get_mut: `{ let r9_keys = (keys of M, cloned); for r9_key in r9_keys.iter() { if let Some(V) = M.get_mut(r9_key) { BODY } } }`
        for x in re.finditer(r'\bfor\s*\(\s*_\s*,\s*(\w+)\s*\)\s+in\s+' + PLACE + r'\.iter_mut\(\)\s*\{', src):
            if not live(x.start()): continue
            V, E = x.group(1), re.sub(r'\s+', '', x.group(2))
            bo = x.end() - 1
            try: bc = rsitems.match_brace(src, mask, bo)      # index just past the closing brace
            except Exception: continue
            edits.append((x.start(), x.end(), '{ let r9_keys = ({ let mut r9_v = Vec::new(); for r9_kv in %s.iter() { r9_v.push(r9_kv.0.clone()); } r9_v }); for r9_key in r9_keys.iter() { if let Some(%s) = %s.get_mut(r9_key) {' % (E, V, E) + nl(x.start(), x.end()), 'R9j_iter_mut'))
            edits.append((bc - 1, bc, '} } }', 'R9j_close'))
        # R14: the f32 sum of a slice: `E.iter().sum::<f32>()`, and `E.iter().sum()` where it is the argument of `float_stack.push(..)` =>
        #      `({ let mut r14_s: f32 = crate::spec::f32_sum_identity(); for r14_x in E.iter() { r14_s = r14_s + *r14_x; } r14_s })`.
        #      f32_sum_identity() is a wrapper whose body IS std's empty sum (the self tests add the same one-line function to the scratch crate);
        #      ASSUMED: std sums a slice iterator left to right starting from that identity.
        for x in re.finditer(PLACE + r'\.iter\(\)\s*\.\s*sum(::<f32>)?\(\)', src):
            if not live(x.start()): continue
            if not x.group(2) and not re.search(r'float_stack\s*\.\s*push\s*\(\s*$', src[max(0, x.start() - 60):x.start()]): continue
            edits.append((x.start(), x.end(), '({ let mut r14_s: f32 = crate::spec::f32_sum_identity(); for r14_x in %s.iter() { r14_s = r14_s + *r14_x; } r14_s })' % re.sub(r'\s+', '', x.group(1))
                          + nl(x.start(), x.end()), 'R14_f32_sum'))
        # h: the keys of a map, cloned into a vector (iteration order unspecified either way)
        for x in re.finditer(PLACE + r'\.keys\(\)\s*\.\s*cloned\(\)\s*\.\s*collect\(\)', src):
            if not live(x.start()): continue
            E = re.sub(r'\s+', '', x.group(1))
            edits.append((x.start(), x.end(), '({ let mut r9_v = Vec::new(); for r9_kv in %s.iter() { r9_v.push(r9_kv.0.clone()); } r9_v })' % E + nl(x.start(), x.end()), 'R9h_keys_collect'))
        # g: retain statement -- "operates in place, visiting each element exactly once in the original order"
        for x in re.finditer(PLACE + r'\.retain\s*\(', src):
            if not live(x.start()): continue
            E = re.sub(r'\s+', '', x.group(1))
            po = x.end() - 1; pc = _close_paren(src, mask, po)
            if pc is None: continue
            mm = re.match(r'\s*\|\s*(\w+)\s*\|\s*(.+?)\s*$', src[po + 1:pc - 1], re.S)
            m2 = re.match(r'\s*;', src[pc:])
            if not mm or not m2 or '|' in mm.group(2) or '{' in mm.group(2): continue
            X, COND = mm.groups()
            edits.append((x.start(), pc + m2.end(), '{ let mut r9_k: usize = 0; while r9_k < %s.len() { if ({ let %s = &%s[r9_k]; %s }) { r9_k += 1; } else { %s.remove(r9_k); } } }'
                          % (E, X, E, one_line(COND, rsitems.scan_tokens(COND), 0, len(COND)), E) + nl(x.start(), pc + m2.end()), 'R9g_retain'))
        edits.sort()
        if any(edits[i][1] > edits[i + 1][0] for i in range(len(edits) - 1)):
            out[m_] = src; continue     # nested adapters: leave the module as it is (its functions stay outside Verus)
        pieces = []; pos = 0
        for a, b, t, k in edits:
            pieces.append(src[pos:a]); pieces.append(t); pos = b
            if k != 'R9j_close': stats[k] = stats.get(k, 0) + 1
        pieces.append(src[pos:])
        out[m_] = ''.join(pieces)
    return out


OUTLINES = [
    # (module, function, loop ordinal, new function, types of the captured `let mut` locals of the enclosing function that the body uses, in declaration order)
    dict(mod='parser', fn='parse_program', loop=0, name='parse_program__token', var_type='&str', mut_cap_types=['usize']),
]


def r16_outline_loop_bodies(srcs, stats):
    """R16: the body of a listed `for X in E { BODY }` loop is moved, verbatim, into a function of its own, appended to the module, and the loop
    calls that function; `continue` becomes `return`.  Its parameters are, in this order: the parameters of the enclosing function that BODY
    mentions (same names, same types), the loop variable X, and the `let mut` locals of the enclosing function that BODY mentions, passed by
    `&mut` (every mention becomes `(*name)`).  Names are read off the code, so renaming any of them changes nothing.  The per-iteration
    behaviour can then carry a contract of its own.  A body that leaves the loop by `break` or `return` is not outlined."""
    out = dict(srcs)
    for o in OUTLINES:
        if o['mod'] not in out: continue
        src = out[o['mod']]; mask = rsitems.scan_tokens(src)
        fit = None
        def walk(its):
            nonlocal fit
            for it in its:
                if it['kind'] == 'mod' and is_cfg_test(src, it): continue
                if it['kind'] == 'fn' and it['name'] == o['fn'] and it['body_start'] is not None: fit = it
                if it.get('children'): walk(it['children'])
        walk(rsitems.items(src, mask=mask))
        if fit is None: continue
        loops = find_loops(src, mask, fit['body_start'] + 1, fit['end'] - 1)
        if o['loop'] >= len(loops): continue
        L = loops[o['loop']]
        hm = re.match(r'for\s+([a-z_]\w*)\s+in\b', src[L['kw']:L['body_open']])
        if L['kind'] != 'for' or not hm: continue
        var = hm.group(1)
        body = src[L['body_open'] + 1:L['body_close']]
        bmask = mask[L['body_open'] + 1:L['body_close']]
        code_only = ''.join(ch if bmask[i] == ord('c') else ' ' for i, ch in enumerate(body))
        if re.search(r'\b(break|return)\b', code_only) or re.search(r"'[a-z_]\w*\s*:", code_only): continue
        used = lambda n: re.search(r'(?<![\w.])%s\b' % re.escape(n), code_only) is not None
        # parameters of the enclosing function that the body mentions
        po = src.index('(', fit['kw']); pe = _close_paren(src, mask, po)
        params = []
        for a in (split_args(src, mask, po + 1, pe - 1) or []):
            am = re.match(r'\s*(?:mut\s+)?([a-z_]\w*)\s*:\s*(.+?)\s*$', a, re.S)
            if am and used(am.group(1)): params.append((am.group(1), re.sub(r'\s+', ' ', am.group(2))))
        if any(not t.startswith('&') for _, t in params): continue       # a by-value parameter would be moved in the first iteration
        # `let mut` locals declared before the loop that the body mentions
        pre = src[fit['body_start'] + 1:L['kw']]; pmask = mask[fit['body_start'] + 1:L['kw']]
        caps = [m.group(1) for m in re.finditer(r'\blet\s+mut\s+([a-z_]\w*)\b', pre) if pmask[m.start()] == ord('c') and used(m.group(1))]
        imm = [m.group(1) for m in re.finditer(r'\blet\s+([a-z_]\w*)\b', pre) if pmask[m.start()] == ord('c') and m.group(1) != 'mut' and used(m.group(1))]
        if imm or len(caps) != len(o['mut_cap_types']): continue          # a shape this table entry does not describe: leave the loop as it is
        def sub_code(text, rx, rep):
            m_ = rsitems.scan_tokens(text); res = []; pos = 0
            for x in re.finditer(rx, text):
                if m_[x.start()] != ord('c'): continue
                res.append(text[pos:x.start()]); res.append(rep(x)); pos = x.end()
            res.append(text[pos:]); return ''.join(res)
        nb = sub_code(body, r'\bcontinue\s*;', lambda x: 'return;')
        for c in caps:
            nb = sub_code(nb, r'(?<![\w.])%s\b(?!\s*\()' % re.escape(c), lambda x, c=c: '(*%s)' % c)
        plist = ['%s: %s' % (n, t) for n, t in params] + ['%s: %s' % (var, o['var_type'])] + ['%s: &mut %s' % (c, t) for c, t in zip(caps, o['mut_cap_types'])]
        alist = [n for n, _ in params] + [var] + ['&mut %s' % c for c in caps]
        call = ' %s(%s); ' % (o['name'], ', '.join(alist))
        newsrc = src[:L['body_open'] + 1] + call + '\n' * body.count('\n') + src[L['body_close']:]
        newsrc = newsrc.rstrip('\n') + '\n\n/// R16: the body of the `for %s in ..` loop of %s, outlined\nfn %s(%s) {%s}\n' % (var, o['fn'], o['name'], ', '.join(plist), nb)
        out[o['mod']] = newsrc
        stats['R16_outlined'] = stats.get('R16_outlined', 0) + 1
    return out


def r8_inline_new_helpers(srcs, known_units, stats):
    """R8: a free function the specification has never seen (absent from spec/known_units.txt) that is pure and straight-line
    (no `&mut` parameter, no generics, no return / ? / loop / unsafe / closure, not recursive) and is only ever *called*, from
    its own module, is inlined at every call site as `({ let (p1, p2): (T1, T2) = (arg1, arg2); BODY })` -- the block a call
    evaluates to -- so that the callers are verified against what the helper does instead of against a contract it does not
    have.  The replacement stays on the call's line (line numbers are preserved).  Returns (new srcs, {path: n_sites})."""
    done = {}
    defs = {}
    masks = {m: rsitems.scan_tokens(t) for m, t in srcs.items()}
    allitems = {m: rsitems.items(srcs[m], mask=masks[m]) for m in srcs}
    name_count = {}
    def walk(its):
        for it in its:
            if it['kind'] == 'fn': name_count[it['name']] = name_count.get(it['name'], 0) + 1
            if it.get('children') and not (it['kind'] == 'mod'): walk(it['children'])
    for m in srcs: walk(allitems[m])
    for m in srcs:
        src = srcs[m]; mask = masks[m]
        for it in allitems[m]:
            if it['kind'] != 'fn' or it.get('parent') is not None or it['body_start'] is None: continue
            path = '%s::%s' % (m, it['name'])
            if path in known_units or name_count.get(it['name'], 0) != 1: continue
            sig = src[it['kw']:it['body_start']]
            mm = re.match(r'(?:pub(?:\([a-z]+\))?\s+)?fn\s+(\w+)\s*\(', sig)
            if not mm: continue
            po = it['kw'] + mm.end(); d = 1; pc = po
            while pc < it['body_start'] and d:
                if mask[pc] == ord('c'):
                    if src[pc] == '(': d += 1
                    elif src[pc] == ')': d -= 1
                pc += 1
            params = split_args(src, mask, po, pc - 1)
            if params is None: continue
            ps = []
            ok = True
            for p in params:
                pm = re.match(r'^([a-z_][A-Za-z0-9_]*)\s*:\s*(.+)$', p, re.S)
                if not pm or re.search(r'&\s*(\'\w+\s+)?mut\b', pm.group(2)) or 'impl ' in pm.group(2) or 'dyn ' in pm.group(2): ok = False; break
                ps.append((pm.group(1), one_line(pm.group(2), rsitems.scan_tokens(pm.group(2)), 0, len(pm.group(2)))))
            rest = src[pc:it['body_start']]
            if not ok or 'where' in rest or 'impl ' in rest: continue
            body_lo, body_hi = it['body_start'] + 1, it['end'] - 1
            code = ''.join(src[i] if mask[i] == ord('c') else ' ' for i in range(body_lo, body_hi))
            if re.search(r'\b(return|loop|while|for|unsafe|move|async|await|break|continue)\b|\?|\|', code): continue
            if re.search(r'\b%s\b' % re.escape(it['name']), code): continue
            defs[it['name']] = dict(mod=m, path=path, params=ps, body=one_line(src, mask, body_lo, body_hi), it=it)
    out = dict(srcs)
    for name, d in defs.items():
        # every occurrence of the name outside #[cfg(test)] modules must be the definition or a plain call in the helper's module
        sites = []; good = True
        for m in srcs:
            src = srcs[m]; mask = masks[m]
            test_spans = [(x['start'], x['end']) for x in allitems[m] if x['kind'] == 'mod' and is_cfg_test(src, x)]
            for x in re.finditer(r'\b%s\b' % re.escape(name), src):
                a = x.start()
                if mask[a] != ord('c') or any(lo <= a < hi for lo, hi in test_spans): continue
                if m == d['mod'] and d['it']['kw'] <= a < d['it']['body_start']: continue
                mc = re.match(r'\s*\(', src[x.end():])
                if m != d['mod'] or not mc or (a > 0 and (src[a - 1] in '.:' or src[a - 1].isalnum())):
                    good = False; break
                po = x.end() + mc.end(); dd = 1; pc = po
                while pc < len(src) and dd:
                    if mask[pc] == ord('c'):
                        if src[pc] in '([{': dd += 1
                        elif src[pc] in ')]}': dd -= 1
                    pc += 1
                args = split_args(src, mask, po, pc - 1)
                if args is None or len(args) != len(d['params']):
                    good = False; break
                sites.append((a, pc, [one_line(src, mask, *_span(src, po, pc - 1, k, mask)) for k in range(len(args))]))
            if not good: break
        if not good or not sites: continue
        # nested call sites (a call inside the arguments of another call of the same helper) are not handled
        sites.sort()
        if any(sites[i][1] > sites[i + 1][0] for i in range(len(sites) - 1)): continue
        src = out[d['mod']]
        if src is not srcs[d['mod']]:
            continue    # one helper per module per run keeps the offsets simple; further helpers stay under the new-function policy
        pieces = []; pos = 0
        for a, b, args in sites:
            names = ', '.join(p for p, _ in d['params']); types = ', '.join(t for _, t in d['params'])
            if len(d['params']) == 0: bind = ''
            elif len(d['params']) == 1: bind = 'let %s: %s = %s; ' % (names, types, args[0])
            else: bind = 'let (%s): (%s) = (%s); ' % (names, types, ', '.join(args))
            nl = src.count('\n', a, b)
            pieces.append(src[pos:a]); pieces.append('({ %s%s })' % (bind, d['body']) + '\n' * nl); pos = b
        pieces.append(src[pos:])
        out[d['mod']] = ''.join(pieces)
        done[d['path']] = len(sites)
        stats['R8_inline_new_helper'] = stats.get('R8_inline_new_helper', 0) + len(sites)
    return out, done


def _span(src, lo, hi, k, mask):
    """(start, end) of the k-th top-level argument in src[lo:hi]"""
    d = 0; a = lo; n = 0
    for i in range(lo, hi):
        if mask[i] != ord('c'): continue
        ch = src[i]
        if ch in '([{': d += 1
        elif ch in ')]}': d -= 1
        elif ch == ',' and d == 0:
            if n == k: return (a, i)
            n += 1; a = i + 1
    return (a, hi)


class LocalToolError(ToolError):
    def __init__(self, path, msg):
        ToolError.__init__(self, msg); self.path = path


def assemble(repo, spec, rows=None, canary=None, opts=None):
    """_assemble, restarted with the offending function emitted as external_body when an edit conflict can be pinned on one function"""
    carried = {}
    for _ in range(8):
        try:
            r = _assemble(repo, spec, rows=rows, canary=canary, opts=opts)
            r['lost_anchors'].update(carried)
            return r
        except LocalToolError as x:
            if x.path in spec.external: raise ToolError(str(x))
            spec.external[x.path] = 'AUTO: ' + str(x)[:200]
            carried[x.path] = str(x)[:300]
    raise ToolError('too many functions with conflicting edits')


def _assemble(repo, spec, rows=None, canary=None, opts=None):
    """Build the Verus crate text. Returns dict(text, units, linemap(list of (mod, srcline)|None), stats, registry)."""
    opts = opts or {}
    srcs = load_sources(repo)
    reg = registry(srcs)
    ROWS = getattr(rows, 'ROWS', {}) if rows else {}
    stats = {k: 0 for k in REWRITE_STATS_KEYS}
    srcs = r16_outline_loop_bodies(srcs, stats)
    srcs = r9_desugar_iterators(srcs, stats)
    r8_done = {}
    if opts.get('known_units'):
        # one helper per module per pass (keeps the offsets simple): repeat until nothing is left to inline
        for _pass in range(8):
            srcs, d8 = r8_inline_new_helpers(srcs, set(opts['known_units']) | set(r8_done), stats)
            if not d8: break
            r8_done.update(d8)
        for pth, n in r8_done.items():
            spec.external[pth] = 'R8: new helper without a contract; pure and straight-line, so its body is verified inlined at its %d call site(s) instead' % n
    stats.update(external_derive=0, external_body=0, external=0, dropped_use=0, dropped_test_mod=0,
                 fns_total=0, fns_verified=0, fns_trusted=0, fns_external=0, ret_named=0, instruction_copies=0)
    out = []; linemap = []; units = []
    lost_anchors = {}
    bind = {}
    for name, rmod, fn, line in reg:
        bind.setdefault((rmod, fn.split('::')[-1]), []).append(name)
    for k in bind: bind[k].sort()
    unbound_rows = sorted(set(ROWS) - set(n for n, _, _, _ in reg))
    names_without_row = sorted(set(n for n, _, _, _ in reg) - set(ROWS))

    def emit(text, lm=None, mod=None):
        n = text.count('\n')
        if lm is None:
            lm = [None] * (n + 1)
        out.append(text)
        for k in range(n):
            linemap.append((mod, lm[k]) if lm[k] else None)

    prelude = ''.join(open(p).read() for p in opts.get('prelude_files', []))
    emit(HEADER)
    emit(prelude if prelude.endswith('\n') or not prelude else prelude + '\n')
    emit('pub mod push {\n')
    for mod in MODULES:
        src = srcs[mod]; mask = rsitems.scan_tokens(src)
        its = rsitems.items(src, mask=mask)
        ed = Edits(src)
        ctx = dict(src=src, mask=mask, ed=ed, marks=[], line_off=0)
        uses_rand = False
        copies = []   # (text, linemap) of instruction copies

        def handle_fn(it, ctx, name=None, path_override=None):
            """A lost anchor / unresolvable placeholder in ONE function's overlay must not make every property undecided: the function is
            re-emitted without overlay as external_body (recorded in lost_anchors; the engine treats it like an untranslatable unit)."""
            ed = ctx['ed']
            n_edits = len(ed.e); n_units = len(units); n_marks = len(ctx['marks']); saved = dict(stats)
            try:
                return handle_fn_inner(it, ctx, name=name, path_override=path_override)
            except ToolError as x:
                base = (path_override or fn_path(mod, it)).split('@')[0]
                if base in spec.external or base in spec.ignore: raise
                del ed.e[n_edits:]; del units[n_units:]; del ctx['marks'][n_marks:]
                stats.clear(); stats.update(saved)
                spec.external[base] = 'AUTO: ' + str(x)[:200]
                lost_anchors[base] = str(x)[:300]
                return handle_fn_inner(it, ctx, name=name, path_override=path_override)

        def handle_fn_inner(it, ctx, name=None, path_override=None):
            src = ctx['src']; mask = ctx['mask']; ed = ctx['ed']
            path = path_override or fn_path(mod, it)
            line = src.count('\n', 0, it['kw']) + 1 + ctx['line_off']
            if it['body_start'] is None:
                return  # trait method declaration
            stats['fns_total'] += 1
            e = spec.fn.get(fn_path(mod, it) if path_override is None else path_override.split('@')[0])
            if e and opts.get('known_binders') is not None:
                # locals renamed since the overlays were written are followed (only pure renames: see binder_renames)
                ren = binder_renames(opts['known_binders'].get((path_override or fn_path(mod, it)).split('@')[0], []), fn_binders(src, mask, it))
                if ren:
                    # the contract itself (requires / ensures / decreases) can only mention parameters -- and the name it gives to the result, which may
                    # coincide with an old local -- so only renamed PARAMETERS are followed there; invariants and proof blocks follow every rename
                    then_params = set(x[-1] for x in opts['known_binders'].get((path_override or fn_path(mod, it)).split('@')[0], []) if x[0] == 'param')
                    ren_sig = dict((o, n) for o, n in ren.items() if o in then_params and o != e.get('ret'))
                    e = dict(e, text=rename_in_overlay(e['text'], ren_sig), loops={k: rename_in_overlay(t, ren) for k, t in e['loops'].items()},
                             proofs={k: rename_in_overlay(t, ren) for k, t in e['proofs'].items()})
                    stats['binder_renames'] = stats.get('binder_renames', 0) + len(ren)
            kind = 'verified'
            reason = ''
            base_path = path.split('@')[0]
            if base_path in spec.ignore:
                kind = 'ignored'
            elif base_path in spec.external:
                kind = 'external'; reason = spec.external[base_path]
            elif e and e['kind'] == 'trusted':
                kind = 'trusted'; reason = e['reason']
            u = Unit(path, mod, kind, line, reason)
            u.name = name
            units.append(u)
            ctx['marks'].append((len(units) - 1, it['start'], it['end']))
            if kind == 'ignored':
                return
            kwline = src.rfind('\n', 0, it['kw']) + 1
            indent = src[kwline:it['kw']]
            if kind in ('external', 'trusted'):
                ed.insert(kwline, indent + '#[verifier::external_body]\n', prio=1)
                stats['external_body'] += 1
                stats['fns_external' if kind == 'external' else 'fns_trusted'] += 1
            else:
                stats['fns_verified'] += 1
            text = ''
            row = ROWS.get(name) if name else None
            if kind == 'external':
                # a body Verus does not check gets NO contract: an `ensures` on an external_body function would be an assumption
                # (only `@@ trusted` functions carry assumed contracts, and those are listed in every evidence file)
                row = None; e = None
            if row is not None:
                P = first_param(src, it)
                if P is None: raise ToolError('instruction %s: cannot find the state parameter of %s' % (name, path))
                text += row.contract(P)
            # every verified function that has a loop is checked with `loop_isolation(false)`: what the code established before a loop (a local
            # computed once, the arm of a match the loop sits in) is then known inside it, as it is for a reader -- otherwise naming a sub-expression
            # in front of a loop would turn into a failed obligation (harmless patch agent3_09)
            # every verified function gets a solver process of its own (`spinoff_prover`): its query then does not depend on what else the module
            # contains, so an edit to a sibling function cannot tip it over the resource limit (observed: Graph::remove_edge diverged -- 25 minutes,
            # 18 GB -- after a behaviour-preserving edit of Edge::diff in the same module, and verifies in 0.1 s when spun off)
            if kind == 'verified' and not (e and 'spinoff_prover' in (e['attrs'] or '')) and os.environ.get('VERIF_SPINOFF', '1') == '1':
                ed.insert(kwline, indent + '#[verifier::spinoff_prover]\n', prio=0)
                stats['spinoff_prover'] = stats.get('spinoff_prover', 0) + 1
            if kind == 'verified' and not (e and 'loop_isolation' in (e['attrs'] or '')) and os.environ.get('VERIF_LOOP_ISOLATION', '0') != '1':
                if find_loops(src, mask, it['body_start'] + 1, it['end'] - 1):
                    ed.insert(kwline, indent + '#[verifier::loop_isolation(false)]\n' + ('' if (e and 'allow_complex_invariants' in (e['attrs'] or '')) else indent + '#[verifier::allow_complex_invariants]\n'), prio=0)
                    stats['loop_isolation_off'] = stats.get('loop_isolation_off', 0) + 1
            if e:
                if e['attrs']:
                    ed.insert(kwline, ''.join(indent + l + '\n' for l in e['attrs'].strip().split('\n')), prio=0)
                if e['ret']:
                    if ret_rewrite(src, mask, it, e['ret'], ed): stats['ret_named'] += 1
                if row is not None and e['text'].strip():
                    # extra clauses of the overlay follow the row's `ensures` list
                    t = re.sub(r'^\s*ensures\b', '', e['text'], count=1)
                    text += t
                else:
                    text += e['text']
            if canary == path and kind == 'verified':
                text = text.rstrip('\n')
                add = '    ensures false, // CANARY\n' if not re.search(r'\bensures\b', text) else '        false, // CANARY\n'
                md = re.search(r'^[ \t]*decreases\b', text, re.M)
                if md:   # the canary clause belongs to the ensures list, which precedes `decreases`
                    text = text[:md.start()] + add + text[md.start():] + '\n'
                else:
                    text += ('\n' if text else '') + add
            if text.strip():
                ed.insert(it['body_start'], '\n' + text + indent, prio=0)
            if e and kind == 'verified':
                loops = find_loops(src, mask, it['body_start'] + 1, it['end'] - 1)
                fn_src = src[it['kw']:it['end']]
                for k, t in e['loops'].items():
                    t = resolve_placeholders(t, fn_src, path)
                    if k >= len(loops):
                        raise ToolError('lost anchor: %s has no loop %d' % (path, k))
                    ed.insert(loops[k]['body_open'], '\n' + t + indent + '    ', prio=0)
                    if loops[k]['kind'] == 'for' and re.search(r'\bghost_iter\b', t):
                        # name the for-loop's ghost iterator (Verus syntax `for x in NAME: range`); additive
                        hm = re.match(r'for\s+.+?\s+in\s+', src[loops[k]['kw']:loops[k]['body_open']], re.S)
                        if not hm: raise ToolError('cannot name the iterator of loop %d in %s' % (k, path))
                        ed.insert(loops[k]['kw'] + hm.end(), 'ghost_iter: ', prio=0)
                for w, t in e['proofs'].items():
                    t = resolve_placeholders(t, fn_src, path)
                    if w == 'body_start':
                        ed.insert(it['body_start'] + 1, '\n' + t, prio=0)
                    elif w == 'body_end':
                        # last thing in the body of a function that returns () : after its final statement
                        if re.search(r'->', src[it['kw']:it['body_start']]):
                            raise ToolError('body_end proof position needs a unit-returning function: %s' % path)
                        ed.insert(it['end'] - 1, ';\n' + t, prio=0)
                    elif w == 'tail':
                        ed.insert(tail_pos(src, mask, it['body_start'], it['end'] - 1), t + indent + '    ', prio=0)
                    elif w.startswith('before_return'):
                        # before the k-th `return` statement whose text mentions the given identifier (e.g. an enum variant)
                        m = re.match(r'before_return\s+(\w+)\s+(\d+)$', w)
                        if not m: raise ToolError('bad proof position %r for %s' % (w, path))
                        rets = []
                        for x in re.finditer(r'\breturn\b', src[it['body_start']:it['end']]):
                            a = x.start() + it['body_start']
                            if mask[a] != ord('c'): continue
                            b = a
                            while b < it['end'] and not (mask[b] == ord('c') and src[b] == ';'): b += 1
                            if re.search(r'\b%s\b' % re.escape(m.group(1)), src[a:b]): rets.append(a)
                        k = int(m.group(2))
                        if k >= len(rets):
                            raise ToolError('lost anchor: %s has no return #%d mentioning %s' % (path, k, m.group(1)))
                        ed.insert(rets[k], t + indent + '        ', prio=0)
                    elif w.startswith('before_call'):
                        # before the statement containing the k-th call of a function (keyed by callee name + ordinal)
                        m = re.match(r'before_call\s+(\w+)\s+(\d+)$', w)
                        if not m: raise ToolError('bad proof position %r for %s' % (w, path))
                        calls = [x.start() + it['body_start'] for x in re.finditer(r'\b%s\s*\(' % re.escape(m.group(1)), src[it['body_start']:it['end']])
                                 if mask[x.start() + it['body_start']] == ord('c')]
                        k = int(m.group(2))
                        if k >= len(calls):
                            raise ToolError('lost anchor: %s has no call #%d of %s' % (path, k, m.group(1)))
                        i = calls[k] - 1; d = 0
                        while i > it['body_start']:
                            if mask[i] == ord('c'):
                                ch = src[i]
                                if ch in ')]': d += 1
                                elif ch in '([':
                                    d -= 1
                                elif d == 0 and ch in ';{}':
                                    break
                            i -= 1
                        ed.insert(i + 1, '\n' + t, prio=0)
                    else:
                        m = re.match(r'loop\s+(\d+)\s+(start|end|before|after)$', w)
                        if not m: raise ToolError('bad proof position %r for %s' % (w, path))
                        k = int(m.group(1))
                        if k >= len(loops):
                            raise ToolError('lost anchor: %s has no loop %d' % (path, k))
                        if m.group(2) == 'before':
                            ed.insert(loops[k]['kw'], t + indent + '    ', prio=-20)
                        elif m.group(2) == 'after':
                            ed.insert(loops[k]['body_close'] + 1, '\n' + t, prio=20)
                        elif m.group(2) == 'start':
                            ed.insert(loops[k]['body_open'] + 1, '\n' + t, prio=0)
                        else:
                            ed.insert(loops[k]['body_close'], t, prio=0)
            if kind == 'verified':
                apply_rewrites(src, mask, it, ed, stats, e)

        def handle_top_fn(it):
            names = bind.get((mod, it['name']), []) if it.get('parent') is None else []
            if not names or not ROWS:
                handle_fn(it, ctx, name=names[0] if names else None); return
            handle_fn(it, ctx, name=names[0])
            for extra in names[1:]:
                # the same function registered under a second NAME: a renamed copy, checked against that NAME's row
                suffix = '__as__' + re.sub(r'[^A-Za-z0-9]', '_', extra)
                sub = src[it['start']:it['end']] + '\n'
                kw_rel = it['kw'] - it['start']
                m = re.match(r'((?:pub(?:\([a-z]+\))?\s+)?fn\s+)([A-Za-z_0-9]+)', sub[kw_rel:])
                sub = sub[:kw_rel] + m.group(1) + m.group(2) + suffix + sub[kw_rel + m.end():]
                smask = rsitems.scan_tokens(sub)
                sits = [x for x in rsitems.items(sub, mask=smask) if x['kind'] == 'fn']
                sctx = dict(src=sub, mask=smask, ed=Edits(sub), marks=[], line_off=src.count('\n', 0, it['start']))
                handle_fn(sits[0], sctx, name=extra, path_override='%s::%s@%s' % (mod, it['name'], extra))
                for idx, a, b in sctx['marks']:
                    sctx['ed'].insert(a, '/*U<%d*/' % idx, prio=-5); sctx['ed'].insert(b, '/*U>*/', prio=5)
                t, lm = sctx['ed'].apply()
                lm = [(x + sctx['line_off']) if x else None for x in lm]
                copies.append((t if t.endswith('\n') else t + '\n', lm))
                stats['instruction_copies'] += 1

        for it in its:
            k = it['kind']
            if k == 'mod':
                if is_cfg_test(src, it):
                    ed.replace(it['start'], it['end'], ''); stats['dropped_test_mod'] += 1
                continue
            if k == 'use':
                ls = src.rfind('\n', 0, it['kw']) + 1
                if DROP_USE.match(src[ls:it['end']]):
                    # R2: the import is re-pointed to the stub module (same names, assumed contracts)
                    t = src[it['kw']:it['end']]
                    t = re.sub(r'\buse\s+rand::distributions::', 'use crate::rand_stub::', t)
                    t = re.sub(r'\buse\s+(rand_distr|names|rand)::', 'use crate::rand_stub::', t)
                    ed.replace(it['kw'], it['end'], t); stats['R2_rng'] += 1; uses_rand = True
                continue
            if k in ('struct', 'enum'):
                pre = src[it['start']:it['kw']]
                m = re.search(r'#\[derive', pre)
                if m:
                    ed.insert(it['start'] + m.start(), '#[verifier::external_derive]\n', prio=1); stats['external_derive'] += 1
                p = '%s::%s' % (mod, it['name'])
                if p in spec.external:
                    ed.insert(it['start'], '#[verifier::external_body]\n', prio=2); stats['external_body'] += 1
                if p in spec.ignore:
                    ed.insert(it['start'], '#[verifier::external]\n', prio=2); stats['external'] += 1
                continue
            if k == 'static' or k == 'const':
                p = '%s::%s' % (mod, it['name'])
                if p in spec.ignore:
                    ed.insert(it['start'], '#[verifier::external]\n', prio=2); stats['external'] += 1
                # R18: an elided reference lifetime in the type of a const / static item is 'static by the language rules; inside `verus!` it has to be
                # written out (otherwise "missing lifetime specifier" stops the whole crate, and every property would be undecided)
                txt = src[it['kw']:it['end']]
                cm = re.match(r'(?:const|static)\s+(?:mut\s+)?\w+\s*:', txt)
                if cm:
                    d = 0; j = cm.end()
                    while j < len(txt) and not (txt[j] == '=' and d == 0) and not (txt[j] == ';' and d == 0):
                        if txt[j] in '([<': d += 1
                        elif txt[j] in ')]>': d -= 1
                        j += 1
                    for x in re.finditer(r"&(?!\s*')", txt[cm.end():j]):
                        if mask[it['kw'] + cm.end() + x.start()] == ord('c'):
                            ed.replace(it['kw'] + cm.end() + x.start(), it['kw'] + cm.end() + x.end(), "&'static ")
                            stats['R18_const_static_lifetime'] = stats.get('R18_const_static_lifetime', 0) + 1
                continue
            if k == 'impl':
                ty, tr = impl_type_name(it['header'])
                p = '%s::%s%s' % (mod, ty, ('::' + tr) if tr else '')
                if p in spec.ignore:
                    ed.insert(it['start'], '#[verifier::external]\n', prio=2); stats['external'] += 1
                    for c in it.get('children', []):
                        if c['kind'] == 'fn' and c['body_start'] is not None:
                            u = Unit(fn_path(mod, c), mod, 'ignored', src.count('\n', 0, c['kw']) + 1, spec.ignore[p])
                            units.append(u); ctx['marks'].append((len(units) - 1, c['start'], c['end'])); stats['fns_total'] += 1
                    if p in spec.detrait:
                        # DETRAIT: the methods of an ignored trait impl are re-emitted, bodies verbatim, as inherent methods
                        # `<name>__detrait` of the same type (drops: the `impl Trait for` header, `type X = ..;` items; `Self::X` is
                        # replaced by the declared type), so that they can carry contracts without vstd's trait-level obligations
                        hdr = src[it['kw']:it['body_start']]
                        hm = re.match(r'(impl\s*(?:<[^{]*?>)?\s*)([\w:]+(?:<[^{]*?>)?)\s+for\s+(.+?)\s*$', hdr, re.S)
                        if not hm: raise ToolError('detrait: cannot parse impl header %r' % hdr)
                        body = src[it['body_start'] + 1:it['end'] - 1]
                        assoc = dict(re.findall(r'type\s+(\w+)\s*=\s*([^;]+);', body))
                        parts = []
                        for c in it.get('children', []):
                            if c['kind'] != 'fn' or c['body_start'] is None: continue
                            t = src[c['start']:c['end']]
                            for an, at in assoc.items():
                                t = re.sub(r'\bSelf::%s\b' % an, at.strip(), t)
                            t = re.sub(r'\bfn\s+(%s)\b' % re.escape(c['name']), 'pub fn ' + c['name'] + '__detrait', t, count=1)
                            parts.append((c, t))
                        sub = '%s%s {\n%s\n}\n' % (hm.group(1), hm.group(3), '\n'.join(t for _, t in parts))
                        smask = rsitems.scan_tokens(sub)
                        sits = rsitems.items(sub, mask=smask)
                        sctx = dict(src=sub, mask=smask, ed=Edits(sub), marks=[], line_off=src.count('\n', 0, it['start']))
                        for si in sits:
                            for sc in si.get('children', []):
                                if sc['kind'] == 'fn':
                                    handle_fn(sc, sctx, path_override='%s::%s::%s' % (mod, ty, sc['name']))
                        for idx, a, b in sctx['marks']:
                            sctx['ed'].insert(a, '/*U<%d*/' % idx, prio=-5); sctx['ed'].insert(b, '/*U>*/', prio=5)
                        t, lm = sctx['ed'].apply()
                        copies.append((t if t.endswith('\n') else t + '\n', [(x and it_line(src, it)) for x in lm]))
                        stats['detrait_methods'] = stats.get('detrait_methods', 0) + len(parts)
                    continue
                for c in it.get('children', []):
                    if c['kind'] == 'fn': handle_fn(c, ctx)
                continue
            if k == 'trait':
                for c in it.get('children', []):
                    if c['kind'] == 'fn': handle_fn(c, ctx)
                continue
            if k == 'fn':
                handle_top_fn(it)
        # drop `extern crate`
        for m in re.finditer(r'^[ \t]*extern\s+crate\s+\w+\s*;[ \t]*\n', src, re.M):
            if mask[m.start() + len(m.group(0)) - len(m.group(0).lstrip())] == ord('c'):
                ed.replace(m.start(), m.end(), '')
        for idx, a, b in ctx['marks']:
            ed.insert(a, '/*U<%d*/' % idx, prio=-5)
            ed.insert(b, '/*U>*/', prio=5)
        try:
            text, lm = ed.apply()
        except ToolError as x:
            mo = re.search(r'overlapping edits at (\d+)', str(x))
            owner = next((units[idx].path.split('@')[0] for idx, lo_, hi_ in ctx['marks'] if mo and lo_ <= int(mo.group(1)) < hi_), None) if mo else None
            if owner: raise LocalToolError(owner, 'conflicting rewrites / overlay insertions inside this function (%s)' % x)
            raise
        for a, t in ed.dropped:
            # an overlay insertion that fell inside a replaced range would silently vanish: name the function and give up on it
            owner = next((units[idx].path for idx, x, y in ctx['marks'] if x <= a < y), None)
            if not t.startswith('/*U'):
                if owner: raise LocalToolError(owner.split('@')[0], 'an overlay insertion fell inside a rewritten range and was dropped: %r' % t.strip()[:80])
                raise ToolError('an overlay insertion fell inside a rewritten range and was dropped: %r' % t.strip()[:80])
        if not text.endswith('\n'):
            text += '\n'; lm.append(None)
        emit('pub mod %s {\n' % mod)
        emit('#[allow(unused_imports)] use vstd::prelude::*;\n#[allow(unused_imports)] use crate::spec::*;\n')
        emit('broadcast use {crate::spec::group_float_total, crate::tstd::group_tstd, crate::spec::group_clone, vstd::std_specs::hash::group_hash_axioms%s};\n'
             % ('' if mod == 'buffer' else ', crate::push::buffer::PushBuffer::lemma_live_len, crate::push::buffer::PushBuffer::lemma_wf_bounds'))
        if uses_rand:
            emit('#[allow(unused_imports)] use crate::rand_stub as rand;\n')
        emit(text, lm, mod)
        for t, clm in copies:
            emit('// ---- copy of a function registered under a further instruction NAME ----\n')
            emit(t, clm, mod)
        for g in spec.ghost.get(mod, []):
            emit('// ---- ghost (spec) ----\n'); emit(g if g.endswith('\n') else g + '\n')
        emit('} // mod %s\n' % mod)
    emit('} // mod push\n')
    emit('} // verus!\nfn main() {}\n')
    full = ''.join(out)
    lines = full.split('\n')
    stack = []
    for i, l in enumerate(lines):
        for m in re.finditer(r'/\*U<(\d+)\*/|/\*U>\*/', l):
            if m.group(1) is not None:
                stack.append(int(m.group(1))); units[int(m.group(1))].gen_lo = i + 1
            else:
                units[stack.pop()].gen_hi = i + 1
    return dict(text=full, units=units, linemap=linemap, stats=stats, registry=reg,
                unbound_rows=unbound_rows, names_without_row=names_without_row, lost_anchors=lost_anchors)


HEADER = '''// GENERATED by /verif/tools/gen.py from /repo/src/push/*.rs -- do not edit.
#![allow(unused_imports, unused_variables, unused_mut, dead_code, unused_assignments, unreachable_code, non_snake_case, unused_parens)]
#![feature(allocator_api)]
#![feature(sized_hierarchy)]
use vstd::prelude::*;
verus! {
global size_of usize == 8;
'''

if __name__ == '__main__':
    import argparse
    ap = argparse.ArgumentParser()
    ap.add_argument('--repo', default='/repo'); ap.add_argument('--out', default='/tmp/vx/pushr_vs.rs')
    ap.add_argument('--spec', default=os.path.join(os.path.dirname(os.path.abspath(__file__)), '..', 'spec'))
    a = ap.parse_args()
    sp = Spec()
    for f in sorted(os.listdir(a.spec)):
        if f.endswith('.vspec'): sp.load(os.path.join(a.spec, f))
    pre = [os.path.join(a.spec, f) for f in sorted(os.listdir(a.spec)) if f.endswith('.rs')]
    r = assemble(a.repo, sp, opts=dict(prelude_files=pre))
    os.makedirs(os.path.dirname(a.out), exist_ok=True)
    open(a.out, 'w').write(r['text'])
    print(json.dumps(r['stats']))
    print(len(r['units']), 'units;', len(r['registry']), 'registry entries')


# ------------------------------------------------------------------------------------------------
# Instruction rows -> contracts (DESIGN 3.1)
# ------------------------------------------------------------------------------------------------
STATE_FIELDS = [
    ('bool', 'bool_stack', 'stack'), ('code', 'code_stack', 'stack'), ('exec', 'exec_stack', 'stack'),
    ('float', 'float_stack', 'stack'), ('index', 'index_stack', 'stack'), ('int', 'int_stack', 'stack'),
    ('name', 'name_stack', 'stack'), ('boolvec', 'bool_vector_stack', 'stack'),
    ('floatvec', 'float_vector_stack', 'stack'), ('intvec', 'int_vector_stack', 'stack'),
    ('input', 'input_stack', 'buffer'), ('output', 'output_stack', 'buffer'), ('graph', 'graph_stack', 'buffer'),
    ('bindings', 'name_bindings', 'map'), ('config', 'configuration', 'plain'),
    ('quote', 'quote_name', 'plain'), ('send', 'send_name', 'plain')]
FIELD = {s: (f, k) for s, f, k in STATE_FIELDS}


def expand_state(expr, P):
    """S0.<short> / S1.<short> -> old(P).<field>[@] / final(P).<field>[@];  S0 / S1 alone -> *old(P) / *final(P)"""
    def rep(m):
        which, short = m.group(1), m.group(2)
        base = 'old(%s)' % P if which == '0' else 'final(%s)' % P
        if short is None:
            return '(*%s)' % base
        if short not in FIELD:
            raise ToolError('unknown state field %r in row expression %r' % (short, expr))
        f, k = FIELD[short]
        return '%s.%s%s' % (base, f, '@' if k in ('stack', 'map') else '')
    return re.sub(r'\bS([01])(?:\.([a-z]+)\b)?', rep, expr)


class Row:
    """One registered instruction NAME: what it takes, when it fires, what it pushes (from the docs / the property text)."""
    def __init__(self, name, props, takes=(), guard=None, pushes=(), clauses=(), touches=(), requires=(), fired=None,
                 unfired_free=(), note=''):
        self.name = name; self.props = list(props); self.takes = list(takes); self.guard = guard
        self.pushes = list(pushes); self.clauses = list(clauses); self.touches = list(touches)
        self.requires = list(requires); self.fired_override = fired; self.unfired_free = list(unfired_free); self.note = note

    def fired_expr(self):
        if self.fired_override is not None:
            return self.fired_override
        conds = ['S0.%s.len() >= %d' % (s, n) for s, n in self.takes]
        if self.guard: conds.append('(%s)' % self.guard)
        return '(' + ' && '.join(conds) + ')' if conds else 'true'

    def contract(self, P):
        props = ','.join(self.props)
        tag = self.name
        out = ['    requires envelope(*old(%s)),' % P]
        for r in self.requires:
            out.append('        %s,' % expand_state(r, P))
        out.append('    ensures')
        F = self.fired_expr()
        always = (F == 'true')
        taken = {}
        for s, n in self.takes: taken[s] = taken.get(s, 0) + n
        pushed = {}
        for p in self.pushes:
            pushed.setdefault(p[0], []).append(p)
        touched = list(dict.fromkeys(list(taken) + list(pushed)))
        raw_covered = set(self.touches)
        def cl(expr, kind, props_):
            out.append('        %s, // [%s|%s|%s]' % (expand_state(expr, P), props_, tag, kind))
        pre = '' if always else '%s ==> ' % F
        for s in touched:
            if s in raw_covered: continue
            nd = taken.get(s, 0); ps = pushed.get(s, [])
            cl('%s(S1.%s.len() == S0.%s.len() - %d + %d && S1.%s.subrange(0, S0.%s.len() - %d) =~= S0.%s.subrange(0, S0.%s.len() - %d))'
               % (pre, s, s, nd, len(ps), s, s, nd, s, s, nd), 'fired.shape.%s' % s, props + ',C10')
            for k, p in enumerate(ps):
                val = p[1]; cond = p[2] if len(p) > 2 else None
                if val is None: continue
                c2 = (F if not always else 'true') + ((' && (%s)' % cond) if cond else '')
                cl('%s ==> S1.%s[S0.%s.len() - %d + %d] == (%s)' % (c2, s, s, nd, k, val), 'fired.value.%s.%d' % (s, k), props)
            if not always:
                if nd > 0:
                    cl('!%s ==> shrunk(S0.%s, S1.%s, %d)' % (F, s, s, nd), 'unfired.%s' % s, 'C10')
                else:
                    cl('!%s ==> S1.%s == S0.%s' % (F, s, s), 'unfired.nopush.%s' % s, 'C10')
        for lab, expr in self.clauses:
            lp = props
            m = re.match(r'^\{([A-Z0-9,]+)\}\s*(.*)$', lab)
            if m: lp, lab = m.group(1), m.group(2)
            cl(expr, lab, lp)
        for s, f, k in STATE_FIELDS:
            if s in touched or s in raw_covered: continue
            cl('S1.%s == S0.%s' % (s, s), 'frame.%s' % s, 'C10')
        cl('state_wf(S1)', 'wf.buffers', 'C10' if 'C17' not in self.props and 'C18' not in self.props else props + ',C10')
        return '\n'.join(out) + '\n'

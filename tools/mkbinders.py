#!/usr/bin/env python3
"""Records, for every function of the pinned tree, the ordered list of names it binds (spec/known_binders.json).  The assembler uses it
to follow locals that were merely renamed since the overlays were written (gen.binder_renames).  Run on the pinned tree only."""
import os, sys, json
HERE = os.path.dirname(os.path.abspath(__file__)); sys.path.insert(0, HERE)
import gen, rsitems, engine
srcs = gen.load_sources(engine.REPO); st = {}
srcs = gen.r9_desugar_iterators(gen.r16_outline_loop_bodies(srcs, st), st)
out = {}
for mod, src in srcs.items():
    mask = rsitems.scan_tokens(src)
    def walk(its):
        for it in its:
            if it['kind'] == 'mod' and gen.is_cfg_test(src, it): continue
            if it['kind'] == 'fn' and it['body_start'] is not None:
                out[gen.fn_path(mod, it)] = gen.fn_binders(src, mask, it)
            if it.get('children'): walk(it['children'])
    walk(rsitems.items(src, mask=mask))
json.dump(out, open(os.path.join(engine.SPEC, 'known_binders.json'), 'w'), indent=0, sort_keys=True)
print(len(out), 'functions')

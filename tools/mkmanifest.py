#!/usr/bin/env python3
"""Writes /verif/MANIFEST.json from spec/properties.py (claimed) and spec/not_applicable.json."""
import json, os, sys, importlib.util
V = os.path.dirname(os.path.dirname(os.path.abspath(__file__)))
s = importlib.util.spec_from_file_location('properties', os.path.join(V, 'spec', 'properties.py'))
m = importlib.util.module_from_spec(s); s.loader.exec_module(m)
na = json.load(open(os.path.join(V, 'spec', 'not_applicable.json')))
checks = []
import re
m.PROPS = {k: v for k, v in m.PROPS.items() if re.match(r'^C\d\d$', k)}
for pid in sorted(m.PROPS):
    c = m.PROPS[pid]
    checks.append(dict(
        property_id=pid,
        quick_cmd='./check %s quick' % pid,
        thorough_cmd='./check %s thorough' % pid,
        evidence_file='/verif/evidence/%s.json' % pid,
        replay_cmd_template='./check --replay {path}',
        engine='verus-contracts',
        level_claimed=dict(category=c.get('level', 'proof'), text=c.get('level_text') or c.get('explanation', ''), design_ref=c.get('design_ref', 'DESIGN.md Part I (I.3 trusted base, I.4 per-property table); plan: section 7 / %s' % pid)),
        level_note=c.get('level_note') or ('Trusted base: Verus/Z3; assumed std contracts (T-std), A-float, A-clone; functions listed as out_of_reach in the evidence are not verified. '
                                           + ' '.join(c.get('assumptions', []))),
        technique=c.get('technique', 'contract-based deductive verification (Verus) of the functions extracted from /repo on every run'),
    ))
man = dict(
    version=1,
    setup_cmd='./check --setup',
    hooks=dict(guard='johker_pushr_verif', enable='none needed: private functions are reached by text extraction (Verus) and by appending a #[cfg(kani)] module to a scratch copy (Kani)',
               baseline_off_cmd='cd /repo && cargo test --workspace --no-fail-fast --offline', source_commits=[], add_only=True),
    engines=[dict(name='verus-contracts', path='/verif/tools', serves_properties=sorted(m.PROPS),
                  kind_free_text='python3 assembler (extract + overlay) -> one Verus file -> verus -> per-property obligation reader; Kani/CBMC for bit-precise float facts and bounded stand-ins')],
    checks=checks,
    notes='See DESIGN.md. Exit 2 from a check means undecided (tool limit), never a violation.',
    not_applicable=[x for x in na if x['property_id'] not in m.PROPS],
)
json.dump(man, open(os.path.join(V, 'MANIFEST.json'), 'w'), indent=1)
print('claimed', sorted(m.PROPS), 'not_applicable', [x['property_id'] for x in man['not_applicable']])

#!/usr/bin/env python3
"""Regenerates the generated sections of DESIGN.md (between <!-- BEGIN x --> / <!-- END x --> markers):
seeded changes (from seeded/*/meta.json), fixes and findings (from known_findings.json), trusted base scan (from the last build)."""
import os, re, json, glob, sys
V = os.path.dirname(os.path.dirname(os.path.abspath(__file__)))
sys.path.insert(0, os.path.join(V, 'tools'))


def seeded():
    rows = []
    for d in sorted(glob.glob(os.path.join(V, 'seeded', '*'))):
        try:
            m = json.load(open(os.path.join(d, 'meta.json')))
        except Exception:
            continue
        sid = os.path.basename(d)
        caught = m.get('caught_by', [])
        tool = sorted(p for p, c in m.get('checks', {}).items() if c.get('rc') == 2)
        res = ', '.join(caught) if caught else ('**not caught**' + (' (exit 2: %s)' % ', '.join(tool[:3]) if tool else ''))
        if m.get('caught_by_thorough'): res += ' — thorough tier: ' + ', '.join(m['caught_by_thorough'])
        rows.append('| %s | %s | %s | %s | %s |' % (sid, m.get('property', ''), (m.get('title') or '').replace('|', '/')[:90],
                                                (m.get('needs_to_manifest') or '').replace('|', '/').replace('\n', ' ')[:110], res))
    head = '| seed | breaks | change | needs, to manifest | caught by (quick checks that print VIOLATION) |\n|---|---|---|---|---|\n'
    return head + '\n'.join(rows) + '\n'


def findings():
    k = json.load(open(os.path.join(V, 'known_findings.json')))
    out = ['**Known findings (recorded, not repaired):**\n']
    for f in k['findings']:
        out.append('* `%s` %s `%s` — %s' % (f['property'], f['unit'], f['obligation'], f['what']))
    out.append('\n**Repaired by `fix:` commits in /repo (a fixed entry suppresses nothing):**\n')
    seen = set()
    for f in k['fixed']:
        out.append('* ' + f)
    return '\n'.join(out) + '\n'


def main():
    p = os.path.join(V, 'DESIGN.md')
    s = open(p).read()
    for name, fn in [('SEEDED', seeded), ('FINDINGS', findings)]:
        a = '<!-- BEGIN %s -->' % name; b = '<!-- END %s -->' % name
        if a in s and b in s:
            s = s[:s.index(a) + len(a)] + '\n' + fn() + s[s.index(b):]
    open(p, 'w').write(s)


if __name__ == '__main__':
    main()

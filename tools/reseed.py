#!/usr/bin/env python3
"""reseed.py <results.json> [seed-id ...]   -- re-evaluate the stored seeded changes against the current machinery.
For every seeded/<id>/patch.diff: apply it to a scratch worktree of /repo HEAD (SEED_REPO, default /tmp/seedrepo; /repo itself
is never modified), run every claimed quick check with VERIF_REPO pointing there, record rc / VIOLATION lines, undo.
`reseed.py --merge <results.json>` writes the results into seeded/<id>/meta.json (caught_by, checks).
Run it from a snapshot worktree of /verif when /verif is being edited meanwhile."""
import os, sys, json, subprocess, time, glob

VERIF = os.path.dirname(os.path.dirname(os.path.abspath(__file__)))


def sh(cmd, cwd=None, env=None, timeout=3600):
    p = subprocess.run(cmd, shell=True, cwd=cwd, stdout=subprocess.PIPE, stderr=subprocess.STDOUT, text=True, timeout=timeout, env=env)
    return p.returncode, p.stdout


def merge(path):
    res = json.load(open(path))
    for sid, r in res.items():
        mp = os.path.join(VERIF, 'seeded', sid, 'meta.json')
        m = json.load(open(mp))
        m['caught_by'] = r['caught_by']; m['checks'] = r['checks']
        m['evaluated_against'] = r.get('verif_commit')
        json.dump(m, open(mp, 'w'), indent=1)
    print('merged', len(res))


def main():
    if sys.argv[1] == '--merge':
        return merge(sys.argv[2])
    out = sys.argv[1]
    ids = sys.argv[2:] or sorted(os.path.basename(d) for d in glob.glob(os.path.join(VERIF, 'seeded', '*')) if os.path.isdir(d))
    target = os.environ.get('SEED_REPO', '/tmp/seedrepo')
    man = json.load(open(os.path.join(VERIF, 'MANIFEST.json')))
    props = [c['property_id'] for c in man['checks']]
    _, commit = sh('git -C %s rev-parse --short HEAD' % VERIF)
    sh('git -C /repo worktree remove --force %s' % target); sh('rm -rf %s' % target)
    rc, o = sh('git -C /repo worktree add --detach %s HEAD' % target)
    assert rc == 0, o
    results = json.load(open(out)) if os.path.exists(out) else {}
    env = dict(os.environ, VERIF_REPO=target, VERIF_CANARIES='0',
               VERIF_EVIDENCE_DIR=os.path.join(VERIF, '.seed_evidence'), VERIF_REPLAYS=os.path.join(VERIF, '.seed_replays'))
    try:
        for sid in ids:
            patch = os.path.join(VERIF, 'seeded', sid, 'patch.diff')
            rc, o = sh('git -C %s apply %s' % (target, patch))
            if rc != 0:
                results[sid] = dict(error='patch does not apply: ' + o[-200:], caught_by=[], checks={}); continue
            checks = {}
            try:
                for p in props:
                    t0 = time.time()
                    rc2, o2 = sh('./check %s quick' % p, cwd=VERIF, env=env)
                    viol = [l for l in o2.split('\n') if l.startswith('VIOLATION')]
                    failed = [l.strip() for l in o2.split('\n') if l.strip().startswith('failed:')][:6]
                    checks[p] = dict(rc=rc2, lines=(viol + failed)[:4], tool=[l for l in o2.split('\n') if l.startswith('TOOL-ERROR')][:3])
            finally:
                sh('git -C %s checkout -- .' % target)
            results[sid] = dict(caught_by=sorted(p for p, c in checks.items() if c['rc'] == 1), checks=checks, verif_commit=commit.strip())
            print(sid, 'caught_by', results[sid]['caught_by'], 'exit2', [p for p, c in checks.items() if c['rc'] == 2], flush=True)
            json.dump(results, open(out, 'w'), indent=1)
    finally:
        sh('git -C /repo worktree remove --force %s' % target)
        sh('rm -rf %s %s' % (env['VERIF_EVIDENCE_DIR'], env['VERIF_REPLAYS']))


if __name__ == '__main__':
    main()

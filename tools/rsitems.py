"""Minimal Rust item scanner: finds fn/struct/enum/impl/trait/const/static/use items with exact source spans.
Prototype from the design phase (2026-10-04); to be moved into /verif/tools in the build phase."""
import re, sys

def scan_tokens(src):
    """Return a bytearray mask: 'c' where src[i] is code, ' ' inside comments/strings/char literals."""
    n = len(src); i = 0
    mask = bytearray(b' ' * n)
    while i < n:
        c = src[i]
        if src.startswith('//', i):
            j = src.find('\n', i)
            if j < 0: j = n
            i = j; continue
        if src.startswith('/*', i):
            depth = 1; j = i + 2
            while j < n and depth:
                if src.startswith('/*', j): depth += 1; j += 2
                elif src.startswith('*/', j): depth -= 1; j += 2
                else: j += 1
            i = j; continue
        if c == '"' or (c in 'rb' and re.match(r'(b?r#*"|b")', src[i:i+8])):
            m = re.match(r'b?r(#*)"', src[i:])
            if m:
                term = '"' + m.group(1)
                j = src.find(term, i + len(m.group(0)))
                i = j + len(term); continue
            if c == 'b': i += 1
            j = i + 1
            while j < n and src[j] != '"':
                if src[j] == '\\': j += 1
                j += 1
            i = j + 1; continue
        if c == "'":
            m = re.match(r"'(\\.[^']*|[^'\\])'", src[i:])
            if m:
                i += len(m.group(0)); continue
            mask[i] = ord('c'); i += 1; continue
        mask[i] = ord('c'); i += 1
    return mask

def match_brace(src, mask, i):
    depth = 0; n = len(src)
    while i < n:
        if mask[i] == ord('c'):
            if src[i] == '{': depth += 1
            elif src[i] == '}':
                depth -= 1
                if depth == 0: return i + 1
        i += 1
    raise ValueError('unbalanced')

ITEM_RE = re.compile(r'\b(pub(\([a-z]+\))?\s+)?(fn|struct|enum|impl|trait|const|static|use|mod|type)\b')

def items(src, lo=0, hi=None, mask=None, parent=None):
    """List of dict(kind,name,start,end,kw,body_start,parent,header[,children]) at depth 0 of src[lo:hi].
    start includes preceding #[..] and /// lines; kw is the offset of `pub`/keyword; body_start is the '{'."""
    if mask is None: mask = scan_tokens(src)
    if hi is None: hi = len(src)
    res = []; i = lo
    while i < hi:
        m = ITEM_RE.search(src, i, hi)
        if not m: break
        if mask[m.start()] != ord('c') or mask[m.start(3)] != ord('c'):
            i = m.end(); continue
        kind = m.group(3)
        start = m.start()
        ls = src.rfind('\n', 0, start) + 1
        if src[ls:start].strip() != '':
            i = m.end(); continue
        k = ls
        while True:
            pl = src.rfind('\n', 0, k - 1) + 1 if k > 0 else 0
            line = src[pl:k].strip()
            if k > 0 and (line.startswith('#[') or line.startswith('///')):
                k = pl
            else: break
        start = k
        j = m.end(); pd = 0; body_start = None
        if kind == 'use':
            while j < hi and not (mask[j] == ord('c') and src[j] == ';'): j += 1
        while j < hi:
            if mask[j] == ord('c'):
                ch = src[j]
                if ch in '([': pd += 1
                elif ch in ')]': pd -= 1
                elif ch == ';' and pd == 0:
                    end = j + 1; break
                elif ch == '{' and pd == 0:
                    body_start = j
                    end = match_brace(src, mask, j); break
            j += 1
        else:
            break
        header = src[m.start():(body_start if body_start is not None else end)].strip()
        nm = None
        if kind in ('fn', 'struct', 'enum', 'trait', 'const', 'static', 'mod', 'type'):
            mm = re.match(r'\s*([A-Za-z_][A-Za-z0-9_]*)', src[m.end():])
            nm = mm.group(1) if mm else None
        elif kind == 'impl':
            nm = re.sub(r'\s+', ' ', header)
        d = dict(kind=kind, name=nm, start=start, end=end, kw=m.start(), body_start=body_start, parent=parent, header=header)
        res.append(d)
        if kind in ('impl', 'trait', 'mod') and body_start is not None:
            d['children'] = items(src, body_start + 1, end - 1, mask, parent=d)
        i = end
    return res

if __name__ == '__main__':
    src = open(sys.argv[1]).read()
    def show(its, ind=0):
        for it in its:
            print(' ' * ind, it['kind'], it['name'], src.count('\n', 0, it['start']) + 1, src.count('\n', 0, it['end']) + 1)
            show(it.get('children', []), ind + 2)
    show(items(src))

#!/usr/bin/env python3
"""seedtest.py <worktree> <out-subdir> <seed-id> [props...]
Confirms a seeded change (patch.diff + demo.rs + meta.json produced by a sub-agent in its scratch worktree):
  1. clean worktree: demo passes;  2. patched worktree: the 291 existing tests pass and the demo fails;
  3. patch applied to /repo: run the claimed checks, record which report a VIOLATION; undo the patch.
Stores the confirmed change as /verif/seeded/<seed-id>/ ."""
import os, sys, json, subprocess, shutil, re, time

VERIF = os.path.dirname(os.path.dirname(os.path.abspath(__file__)))


def sh(cmd, cwd=None, timeout=3600, env=None):
    p = subprocess.run(cmd, shell=True, cwd=cwd, stdout=subprocess.PIPE, stderr=subprocess.STDOUT, text=True, timeout=timeout, env=env)
    return p.returncode, p.stdout


def cargo_test(wt):
    env = dict(os.environ, CARGO_TARGET_DIR=os.path.join(wt, 'target'), CARGO_NET_OFFLINE='true')
    rc, out = sh('cargo test --offline 2>&1', cwd=wt, env=env, timeout=1800)
    res = re.findall(r'test result: (\w+)\. (\d+) passed; (\d+) failed', out)
    return rc, out, res


def main():
    wt, sub, sid = sys.argv[1], sys.argv[2], sys.argv[3]
    props = sys.argv[4:]
    src = os.path.join(wt, 'out', sub)
    patch = os.path.join(src, 'patch.diff')
    demo = os.path.join(src, 'demo.rs')
    meta = json.load(open(os.path.join(src, 'meta.json')))
    rep = dict(seed=sid, meta=meta)
    sh('git checkout -- . && rm -f tests/demo.rs', cwd=wt)
    os.makedirs(os.path.join(wt, 'tests'), exist_ok=True)
    # 1. clean + demo
    shutil.copy(demo, os.path.join(wt, 'tests', 'demo.rs'))
    rc, out, res = cargo_test(wt)
    rep['clean'] = dict(rc=rc, results=res)
    clean_ok = rc == 0
    # 2. patched: existing tests pass, demo fails
    rc, o = sh('git apply %s' % patch, cwd=wt)
    if rc != 0:
        rep['error'] = 'patch does not apply: ' + o[-300:]
        print(json.dumps(rep, indent=1)); return 1
    rc, out, res = cargo_test(wt)
    unit_ok = bool(res) and res[0][0] == 'ok' and int(res[0][1]) == 291
    demo_fails = any(r[0] == 'FAILED' for r in res) and rc != 0
    rep['patched'] = dict(rc=rc, results=res, unit_tests_pass=unit_ok, demo_fails=demo_fails)
    sh('git checkout -- . && rm -f tests/demo.rs', cwd=wt)
    rep['confirmed'] = bool(clean_ok and unit_ok and demo_fails)
    # 3. run the checks against /repo with the patch
    # SEED_REPO: a scratch worktree of /repo HEAD to apply the patch to (so that /repo itself stays usable meanwhile);
    # default: /repo itself, as the brief describes
    target = os.environ.get('SEED_REPO', '/repo')
    if target != '/repo':
        sh('git -C /repo worktree remove --force %s' % target); sh('rm -rf %s' % target)
        sh('git -C /repo worktree add --detach %s HEAD' % target)
    rc, o = sh('git -C %s status --porcelain' % target)
    if o.strip():
        rep['error'] = '%s not clean' % target; print(json.dumps(rep, indent=1)); return 1
    rc, o = sh('git -C %s apply %s' % (target, patch))
    checks = {}
    try:
        if rc != 0:
            rep['error'] = 'patch does not apply to /repo: ' + o[-300:]
        else:
            if not props:
                man = json.load(open(os.path.join(VERIF, 'MANIFEST.json')))
                props = [c['property_id'] for c in man['checks']]
            for p in props:
                t0 = time.time()
                # evidence / replays of a run on a CHANGED tree go to scratch directories: /verif/evidence holds only records
                # of the unchanged tree (a seeded run once overwrote the committed evidence files)
                rc2, o2 = sh('./check %s quick' % p, cwd=VERIF, timeout=3600, env=dict(
                    os.environ, VERIF_REPO=target, VERIF_EVIDENCE_DIR=os.path.join(VERIF, '.seed_evidence'),
                    VERIF_REPLAYS=os.path.join(VERIF, '.seed_replays')))
                viol = [l for l in o2.split('\n') if l.startswith('VIOLATION')]
                failed = [l.strip() for l in o2.split('\n') if l.strip().startswith('failed:')][:6]
                checks[p] = dict(rc=rc2, violation=bool(viol), lines=viol + failed, wall=round(time.time() - t0, 1),
                                 tool=[l for l in o2.split('\n') if l.startswith('TOOL-ERROR')][:3])
    finally:
        sh('git -C %s checkout -- .' % target)
        if target != '/repo':
            sh('git -C /repo worktree remove --force %s' % target)
    rep['checks'] = checks
    rep['caught_by'] = sorted(p for p, c in checks.items() if c['violation'])
    d = os.path.join(VERIF, 'seeded', sid)
    os.makedirs(d, exist_ok=True)
    shutil.copy(patch, os.path.join(d, 'patch.diff')); shutil.copy(demo, os.path.join(d, 'demo.rs'))
    meta2 = dict(meta)
    meta2.update(confirmed=rep['confirmed'], what_was_run=[
        'clean worktree + demo: cargo test --offline -> %s' % rep['clean']['results'],
        'patched worktree: cargo test --offline -> %s (291 existing tests pass: %s, demo fails: %s)' % (rep['patched']['results'], unit_ok, demo_fails),
        'patch applied to /repo, ./check <P> quick for P in %s, then git -C /repo checkout -- .' % props],
        caught_by=rep['caught_by'], checks={p: dict(rc=c['rc'], lines=c['lines'][:4], tool=c['tool']) for p, c in checks.items()})
    json.dump(meta2, open(os.path.join(d, 'meta.json'), 'w'), indent=1)
    print(json.dumps(dict(seed=sid, confirmed=rep['confirmed'], caught_by=rep['caught_by'],
                          rcs={p: c['rc'] for p, c in checks.items()}, title=meta.get('title')), indent=1))
    return 0


if __name__ == '__main__':
    sys.exit(main())

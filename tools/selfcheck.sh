#!/bin/sh
# Run every claimed quick check on the unchanged tree, then validate MANIFEST.json and every evidence file against the schemas.
# Use before committing /verif: committed evidence must come from a clean run of the committed machinery.
cd "$(dirname "$0")/.."
fail=0
for p in $(python3 -c "import json;print(' '.join(c['property_id'] for c in json.load(open('MANIFEST.json'))['checks']))"); do
  VERIF_CANARIES=${VERIF_CANARIES:-0} ./check $p quick > /tmp/verif_selfcheck.out 2>&1; rc=$?
  [ $rc -eq 0 ] || { echo "CHECK $p rc=$rc: $(tail -2 /tmp/verif_selfcheck.out)"; fail=1; }
done
python3 tools/mkmanifest.py > /dev/null
python3-vt - <<'PY' || fail=1
import json, glob, sys, jsonschema
ok = True
jsonschema.validate(json.load(open('MANIFEST.json')), json.load(open('/root/.vp/MANIFEST.schema.json')))
es = json.load(open('/root/.vp/EVIDENCE.schema.json'))
for f in sorted(glob.glob('evidence/*.json')):
    e = json.load(open(f))
    try: jsonschema.validate(e, es)
    except Exception as x: print('SCHEMA', f, str(x)[:200]); ok = False
    c = e['coverage']
    if c['obligations'] != c['discharged'] or e.get('violations'): print('INCONSISTENT', f, c['obligations'], c['discharged'], e.get('violations')); ok = False
sys.exit(0 if ok else 1)
PY
rm -f /tmp/verif_selfcheck.out
[ $fail -eq 0 ] && echo SELFCHECK-OK || echo SELFCHECK-PROBLEMS
exit $fail

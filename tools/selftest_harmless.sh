#!/bin/sh
# Applies each behaviour-preserving patch of selftest/harmless/ to a scratch worktree of /repo and runs every claimed quick check:
# rc=1 (VIOLATION) on such a patch is a FALSE ALARM (the script then exits 1); rc=2 is UNDECIDED (reported, tolerated: the patch
# restructures a function under an overlay).  Usage: tools/selftest_harmless.sh [patch ...]
cd "$(dirname "$0")/.."
W=/tmp/pushr_harmless
PATCHES=${@:-selftest/harmless/*.diff}
PROPS=$(python3 -c "import json;print(' '.join(c['property_id'] for c in json.load(open('MANIFEST.json'))['checks']))")
fail=0
undecided=0
for P in $PATCHES; do
  git -C /repo worktree remove --force $W 2>/dev/null; rm -rf $W
  git -C /repo worktree add -q --detach $W HEAD
  git -C $W apply "$(pwd)/$P" || { echo "PATCH-DOES-NOT-APPLY $P"; fail=1; continue; }
  (cd $W && CARGO_TARGET_DIR=$W/target cargo test --offline 2>&1 | grep -q "291 passed") || { echo "TESTS-FAIL $P"; fail=1; }
  for p in $PROPS; do
    VERIF_CANARIES=0 VERIF_REPO=$W VERIF_EVIDENCE_DIR=/tmp/pushr_harmless_ev VERIF_REPLAYS=/tmp/pushr_harmless_rp ./check $p quick > /tmp/pushr_harmless.out 2>&1
    rc=$?
    if [ $rc -eq 1 ]; then echo "FALSE-ALARM $P $p rc=$rc: $(grep -m2 'failed:\|TOOL-ERROR' /tmp/pushr_harmless.out)"; fail=1; fi
    if [ $rc -ge 2 ]; then echo "UNDECIDED $P $p rc=$rc: $(grep -m1 'failed:\|TOOL-ERROR' /tmp/pushr_harmless.out | cut -c1-220)"; undecided=$((undecided+1)); fi
  done
  echo "done $P"
done
git -C /repo worktree remove --force $W 2>/dev/null; rm -rf $W /tmp/pushr_harmless_ev /tmp/pushr_harmless_rp /tmp/pushr_harmless.out
[ $fail -eq 0 ] && echo "HARMLESS-OK (no false alarm; $undecided undecided check runs)" || echo "HARMLESS-PROBLEMS"
exit $fail

#!/bin/sh
# The source-level rewrites of the assembler (R9 iterator desugaring; R8 helper inlining when a new helper exists) change what Verus
# reads.  This writes the rewritten module sources into a scratch copy of the repository and runs the repository's own test suite on it
# with the repository's toolchain: the rewritten text is valid Rust and behaves like the original on all 291 tests.
cd "$(dirname "$0")/.."
W=/tmp/pushr_rewrites
git -C /repo worktree remove --force $W 2>/dev/null; rm -rf $W
git -C /repo worktree add -q --detach $W HEAD || exit 2
cp /repo/Cargo.lock $W/ 2>/dev/null
python3 - <<'PY' || exit 2
import sys; sys.path.insert(0, 'tools')
import gen, engine
srcs = gen.load_sources('/repo'); st = {}
out = gen.r9_desugar_iterators(gen.r16_outline_loop_bodies(srcs, st), st)
out, done = gen.r8_inline_new_helpers(out, engine.KNOWN_UNITS(), st)
n = 0
for m in srcs:
    if srcs[m] != out[m]:
        open('/tmp/pushr_rewrites/src/push/%s.rs' % m, 'w').write(out[m]); n += 1
open('/tmp/pushr_rewrites/src/lib.rs', 'a').write(gen.SELFTEST_SHIM)
print('rewritten modules:', n, st)
PY
(cd $W && CARGO_TARGET_DIR=$W/target cargo test --offline 2>&1 | grep -q "291 passed") && r=0 || r=1
git -C /repo worktree remove --force $W 2>/dev/null; rm -rf $W
[ $r -eq 0 ] && echo REWRITES-OK || echo REWRITES-PROBLEM
exit $r

#!/usr/bin/env python3
"""Thorough tier: Kani/CBMC harnesses on a scratch copy of the repository.

Harness modules live in /verif/kani/<module>.rs.inc and are APPENDED to a scratch copy of src/push/<module>.rs
(a child module reaches the private instruction functions through `super::`); /repo itself is never touched.
Harness name prefixes:  c<NN>_ / l<N>_  = loop-free over full operand domains (a complete proof of the stated fact);
                        b_c<NN>_        = BOUNDED stand-in (vectors of length <= 3, #[kani::unwind]) -- never counted as proved."""
import os, re, sys, json, time, shutil, subprocess, tempfile
HERE = os.path.dirname(os.path.abspath(__file__))
VERIF = os.path.dirname(HERE)
KANI = os.path.join(VERIF, 'kani')

HARNESSES = {
    'C04': ['c04_float_max_order', 'c04_float_min_order', 'c04_float_compare', 'c04_float_divide_guard', 'c04_float_from', 'l5_f32_comparison_duality'],
    'C13': ['l1_active_bits', 'l2_normal_new'],
    'C20': ['l4_f32_constants'],
    'C08': ['c08_pushtype_equals_scalar'],
    'C10': ['c10_unfired_vector', 'c10_unfired_code', 'c10_unfired_graph'],
    # C18: bounded harnesses for Graph::remove_node / remove_edge / get_weight on a 3-node graph with a symbolic edge set were tried
    # (measured: neither finished in 15 minutes -- std HashMap under CBMC) and are not kept
    # b_c09_int_vector_remove / b_c09_int_vector_sort / b_c09_float_vector_sort_total exist in kani/vector.rs.inc but are not run:
    # std's sort and Vec::retain did not finish in CBMC within 400 s even for length <= 2 (measured) -> those bodies stay undecided
    'C09': ['b_c09_bool_vector_count', 'b_c09_int_vector_sum', 'b_c09_int_vector_bool_index', 'b_c09_from_int_array', 'b_c09_float_vector_sum'],
    'C01': ['b_c09_bool_vector_count', 'b_c09_int_vector_sum', 'b_c09_int_vector_bool_index', 'l2_normal_new', 'l1_active_bits', 'l4_f32_constants'],
}
WHAT = {
    'c04_float_max_order': 'FLOAT.MAX: result is one of the operands and >= both (no NaN); all f32 pairs',
    'c04_float_min_order': 'FLOAT.MIN: result is one of the operands and <= both (no NaN); all f32 pairs',
    'l5_f32_comparison_duality': 'float fact L5 (axioms ax_f32_cmp_duality, ax_f32_eq_symmetric): a.partial_cmp(b) is the mirror image of b.partial_cmp(a), == is symmetric and is the ordering\'s Equal; all f32 pairs',
    'c04_float_compare': 'FLOAT.< > = equal the IEEE comparison of (second, top); all f32 pairs',
    'c04_float_divide_guard': 'FLOAT./: no result for a +0.0/-0.0 divisor, exactly one result otherwise; all f32 dividends, divisors in {+-0, 1, NaN, +-inf}',
    'c08_pushtype_equals_scalar': 'PushType::equals on Float/Int/Bool literals is exactly `==` of the values and false across kinds (assumed contract pt_eq); all operand values',
    'c10_unfired_vector': 'external-bodied vector instructions leave the empty state untouched (no operands => nothing pushed anywhere)',
    'c10_unfired_code': 'CODE.CONTAINS / MEMBER / DISCREPANCY leave the empty state untouched',
    'c10_unfired_graph': 'GRAPH.EDGE*HISTORY / NODE*NEIGHBORS / PREDECESSORS / SUCCESSORS leave the empty state untouched',
    'b_c09_from_int_array': 'BOUNDED (len<=3): the assumed contract of the trusted BoolVector::from_int_array (element i is arg[i] == 1)',
    'c04_float_from': 'FLOAT.FROMINTEGER / FLOAT.FROMBOOLEAN values; all i32 / bool',
    'l1_active_bits': 'float lemma L1 (assumed in random_bool_vector): 0 <= bits <= size, bits < i32::MAX; all (f32 in [0,1], i32 >= 0)',
    'l4_f32_constants': 'float fact L4 (axiom ax_f32_constants: 0 <= MAX, 0 <= INFINITY, MIN <= 0, NEG_INFINITY <= 0) and the assumed contract of f32::clamp (bitwise equal to the if/else model for all x and all lo <= hi)',
    'l2_normal_new': 'float lemma L2 (axiom ax_normal_std_ok): rand_distr Normal::new(m, s).is_ok() == s.is_finite(); all f32 pairs',
    'b_c09_bool_vector_count': 'BOUNDED (len<=3): BOOLVECTOR.COUNT pushes the number of true elements',
    'b_c09_int_vector_sum': 'BOUNDED (len<=3): INTVECTOR.SUM pushes the wrapping sum',
    'b_c09_float_vector_sum': 'BOUNDED (len<=3): FLOATVECTOR.SUM equals the left-to-right f32 fold from std\'s empty sum, bit for bit (the assumption behind rewrite R14)',
    'b_c09_int_vector_remove': 'BOUNDED (len<=2): INTVECTOR.REMOVE removes exactly the occurrences of the operand',
    'b_c09_int_vector_bool_index': 'BOUNDED (len<=3): INTVECTOR.BOOLINDEX pushes the indices of the true elements',
    'b_c09_int_vector_sort': 'BOUNDED (len<=2): INTVECTOR.SORT*ASC yields an ascending vector of the same length',
    'b_c09_float_vector_sort_total': 'BOUNDED (len<=2): FLOATVECTOR.SORT*ASC/DESC never panic (NaN included) and keep the length',
}


def run_group(cmd, cwd, env, timeout):
    """run cmd in its own process group; on timeout the WHOLE group is killed (cargo-kani's cbmc children otherwise survive
    their parent and keep tens of GB for hours -- observed)"""
    import signal
    p = subprocess.Popen(cmd, cwd=cwd, stdout=subprocess.PIPE, stderr=subprocess.STDOUT, text=True, env=env, start_new_session=True)
    try:
        out, _ = p.communicate(timeout=timeout)
        return out
    except subprocess.TimeoutExpired:
        try: os.killpg(p.pid, signal.SIGKILL)
        except Exception: pass
        try: out, _ = p.communicate(timeout=30)
        except Exception: out = ''
        return (out or '') + '\nTIMEOUT after %ds' % timeout


def rewrites_selftest(repo, key):
    """thorough tier, once per tree: the source-level rewrites R8/R9/R12 are written into a scratch copy of the repository and the
    repository's own tests are run on it with the repository's toolchain (the rewritten text is valid Rust and behaves alike)."""
    import engine, gen
    cpath = os.path.join(engine.CACHE, key + '-rewrites.json')
    if os.path.exists(cpath):
        return json.load(open(cpath))
    d = tempfile.mkdtemp(prefix='pushr_rw_')
    out = dict(ok=False, stats={}, note='')
    try:
        shutil.copytree(os.path.join(repo, 'src'), os.path.join(d, 'src'))
        for f in ('Cargo.toml', 'Cargo.lock'):
            src = os.path.join(repo, f)
            if not os.path.exists(src): src = os.path.join('/repo', f)
            shutil.copy(src, os.path.join(d, f))
        srcs = gen.load_sources(repo); st = {}
        o = gen.r9_desugar_iterators(gen.r16_outline_loop_bodies(srcs, st), st)
        o, _done = gen.r8_inline_new_helpers(o, engine.KNOWN_UNITS(), st)
        n = 0
        for m in srcs:
            if srcs[m] != o[m]:
                open(os.path.join(d, 'src', 'push', m + '.rs'), 'w').write(o[m]); n += 1
        open(os.path.join(d, 'src', 'lib.rs'), 'a').write(gen.SELFTEST_SHIM)     # the one helper R14 refers to (std's empty f32 sum)
        log = run_group(['cargo', 'test', '--offline'], d, dict(os.environ, CARGO_NET_OFFLINE='true', CARGO_TARGET_DIR=os.path.join(d, 'target')), 1200)
        m = re.search(r'test result: (\w+)\. (\d+) passed; (\d+) failed', log)
        out = dict(ok=bool(m and m.group(1) == 'ok' and int(m.group(3)) == 0 and int(m.group(2)) > 0), rewritten_modules=n, stats=st,
                   result=m.group(0) if m else log[-300:], what='cargo test --offline on a scratch copy whose modules carry the R8/R9/R12 source-level rewrites')
    finally:
        shutil.rmtree(d, ignore_errors=True)
    json.dump(out, open(cpath, 'w'))
    return out


def make_scratch(repo):
    d = tempfile.mkdtemp(prefix='pushr_kani_')
    shutil.copytree(os.path.join(repo, 'src'), os.path.join(d, 'src'))
    for f in ('Cargo.toml', 'Cargo.lock'):
        src = os.path.join(repo, f)
        if not os.path.exists(src): src = os.path.join('/repo', f)   # Cargo.lock is untracked: scratch worktrees do not have it
        shutil.copy(src, os.path.join(d, f))
    os.makedirs(os.path.join(d, '.cargo'))
    open(os.path.join(d, '.cargo', 'config.toml'), 'w').write('[net]\noffline = true\n')
    appended = []
    for f in sorted(os.listdir(KANI)):
        if f.endswith('.rs.inc'):
            mod = f[:-len('.rs.inc')]
            p = os.path.join(d, 'src', 'push', mod + '.rs')
            open(p, 'a').write(open(os.path.join(KANI, f)).read())
            appended.append(mod)
    return d, appended


def run(prop_id, cfg, res, seed, timeout=420):
    import engine
    names = HARNESSES.get(prop_id, [])
    out = dict(kani=[], bounded=[], violations=[], known=[])
    if not names:
        return out
    d, appended = make_scratch(engine.REPO)
    t0 = time.time()
    try:
        cmd = ['cargo', 'kani', '-Z', 'stubbing', '--output-format', 'terse', '-j', '8']
        for n in names: cmd += ['--harness', n]
        env = dict(os.environ, CARGO_NET_OFFLINE='true')
        log = run_group(cmd, d, env, timeout)
        # per-harness status from the (possibly partial) log: "Thread k: Checking harness X..." ... "Thread k: " + result block
        status_of = {}; cur = {}; last_thread = None; failed_checks = {}
        for line in log.split('\n'):
            m = re.match(r'(?:Thread (\d+): )?Checking harness (\S+?)\.\.\.', line)
            if m:
                cur[m.group(1) or '0'] = m.group(2).split('::')[-1]; last_thread = m.group(1) or '0'; continue
            m = re.match(r'Thread (\d+):\s*$', line)
            if m:
                last_thread = m.group(1); continue
            m = re.match(r'Failed Checks: (.*)', line)
            if m and last_thread in cur:
                failed_checks.setdefault(cur[last_thread], []).append(m.group(1).strip()); continue
            m = re.match(r'VERIFICATION:- (\w+)', line)
            if m and last_thread in cur:
                status_of[cur[last_thread]] = 'verified' if m.group(1) == 'SUCCESSFUL' else 'failed'
        # CBMC's --nan-check / --float-overflow-check (on by default in Kani) flag the PRODUCTION of NaN / infinity by a float
        # operation.  Neither is a panic or a property violation in Rust (FLOAT./ of inf by inf is NaN by IEEE 754): a harness that
        # fails only those built-in checks has all of its own assertions proved.
        benign = {}
        for n, fc in failed_checks.items():
            if status_of.get(n) == 'failed' and fc and all(re.match(r'(NaN on |arithmetic overflow on floating-point)', c) for c in fc):
                status_of[n] = 'verified'; benign[n] = fc
        ran = set(cur.values())
        failed = set(n for n, st in status_of.items() if st == 'failed')
        compile_error = not ran
        for n in names:
            bounded = n.startswith('b_')
            if compile_error or n not in ran:
                status = 'not-run'
            else:
                status = status_of.get(n, 'timeout')
            ent = dict(harness=n, what=WHAT.get(n, ''), status=status, bounded=bounded, back_end='Kani 0.68 / CBMC 6.11')
            if n in benign: ent['ignored_builtin_float_checks'] = benign[n]
            (out['bounded'] if bounded else out['kani']).append(ent)
            if status == 'failed':
                # counterexample: concrete playback of the failing harness
                cex = ''
                try:
                    qout = run_group(['cargo', 'kani', '-Z', 'stubbing', '-Z', 'concrete-playback', '--concrete-playback=print', '--harness', n], d, env, 600)
                    m = re.search(r'Concrete playback unit test for.*?```(.*?)```', qout, re.S)
                    cex = (m.group(1) if m else '')[:3000]
                    fc = re.findall(r'Failed Checks: (.*)', qout)
                except Exception as e:
                    fc = []; cex = 'playback failed: %r' % e
                out['violations'].append(dict(unit='kani::' + n, name=None, oid='kani:' + n, cls='kani', label=None,
                                              message='; '.join(fc[:3]) or 'Kani harness failed', src='kani/' + n,
                                              text=WHAT.get(n, ''), counterexample=dict(kind='kani concrete playback', test=cex) if cex else None))
        out['kani_wall_s'] = round(time.time() - t0, 1)
        out['kani_cmd'] = ' '.join(cmd) + '   (cwd: scratch copy of the repository with kani/*.rs.inc appended)'
        if compile_error:
            out['kani_error'] = log[-1500:]
    finally:
        shutil.rmtree(d, ignore_errors=True)
    return out


if __name__ == '__main__':
    sys.path.insert(0, HERE)
    r = run(sys.argv[1], {}, {}, 0)
    print(json.dumps(r, indent=1)[:6000])

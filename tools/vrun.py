#!/usr/bin/env python3
"""Run verus on a generated file and return parsed diagnostics."""
import os, json, subprocess, sys, time, os

class _P:
    pass


def run_verus(path, extra=(), timeout=1200):
    """one Verus run in its own process group; a run that exceeds `timeout` seconds of wall clock is killed with all its z3 children
    (Z3's resource limit does not bound memory or time reliably: a 25-minute, 18 GB query was observed) and reported as a tool-level
    diagnostic `timed out` (=> undecided, exit 2), never as a verification result"""
    import signal
    cmd = ['verus', path, '--error-format=json', '--output-json', '--time'] + list(extra)
    t0 = time.time()
    pr = subprocess.Popen(cmd, stdout=subprocess.PIPE, stderr=subprocess.PIPE, text=True, start_new_session=True)
    p = _P()
    try:
        p.stdout, p.stderr = pr.communicate(timeout=timeout)
        p.returncode = pr.returncode
    except subprocess.TimeoutExpired:
        try: os.killpg(pr.pid, signal.SIGKILL)
        except Exception: pass
        try: pr.communicate(timeout=30)
        except Exception: pass
        p.stdout = ''; p.returncode = -9
        p.stderr = json.dumps(dict(level='error', message='verus timed out after %d s of wall clock (killed)' % timeout, spans=[], children=[]))
    wall = time.time() - t0
    diags = []
    other = []
    for l in p.stderr.split('\n'):
        l = l.strip()
        if not l: continue
        if l.startswith('{'):
            try:
                diags.append(json.loads(l)); continue
            except Exception:
                pass
        other.append(l)
    outj = None
    try:
        i = p.stdout.index('{')
        outj = json.loads(p.stdout[i:])
    except Exception:
        pass
    return dict(cmd=' '.join(cmd), rc=p.returncode, diags=diags, stderr_other=other, out=outj, wall=wall, stdout=p.stdout if outj is None else '')

def primary_span(d):
    sp = [s for s in d.get('spans', []) if s.get('is_primary')]
    return sp[0] if sp else (d['spans'][0] if d.get('spans') else None)

if __name__ == '__main__':
    r = run_verus(sys.argv[1], sys.argv[2:])
    n = 0
    for d in r['diags']:
        if d.get('level') == 'error':
            n += 1
            s = primary_span(d)
            print(d['message'][:200], '@', s['line_start'] if s else None, (s['text'][0]['text'].strip()[:100] if s and s['text'] else ''))
    print(n, 'errors; rc', r['rc'], 'wall %.1f' % r['wall'])
    for l in r['stderr_other'][:20]: print('  |', l[:200])
